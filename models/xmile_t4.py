"""T4: a stock-flow model written as XMILE text and compiled by the repository's real
transpiler (the XMILE-sourced leg of C07).

    stock <- flow = constant * factor        factor = graphical function of TIME

`fresh_model(...)` writes the XMILE text with the given values DIRECTLY in the document,
compiles it and instantiates the generated class: the oracle for a scenario whose constants /
points were delivered through scenario settings.
"""
import importlib
import os
import sys

ELEMENTS = ["stock", "flow", "constant", "factor"]
DEFAULT = {"constant": 1.5, "points": [[0.0, 1.0], [5.0, 2.0], [10.0, 4.0]]}

_TEMPLATE = """<?xml version="1.0" encoding="utf-8"?>
<xmile version="1.0" xmlns="http://docs.oasis-open.org/xmile/ns/XMILE/v1.0" xmlns:isee="http://iseesystems.com/XMILE">
	<header>
		<smile version="1.0" namespace="std, isee"/>
		<name>t4</name>
		<uuid>0eae79bb-f2f4-4eaa-b454-fda84af6aae1</uuid>
		<vendor>isee systems, inc.</vendor>
		<product version="1.9.2" isee:build_number="1907" isee:saved_by_v1="true" lang="en">Stella Architect</product>
	</header>
	<sim_specs method="Euler" time_units="Months">
		<start>{start}</start>
		<stop>{stop}</stop>
		<dt>{dt}</dt>
	</sim_specs>
	<model>
		<variables>
			<stock name="stock">
				<eqn>0</eqn>
				<inflow>flow</inflow>
			</stock>
			<flow name="flow">
				<eqn>constant*factor</eqn>
				<non_negative/>
			</flow>
			<aux name="constant">
				<eqn>{constant}</eqn>
			</aux>
			<aux name="factor">
				<eqn>TIME</eqn>
				<gf>
					<xscale min="{xmin}" max="{xmax}"/>
					<yscale min="0" max="10"/>
					<ypts>{ypts}</ypts>
				</gf>
			</aux>
		</variables>
	</model>
</xmile>
"""


def _fmt(x):
    x = float(x)
    return str(int(x)) if x == int(x) else repr(x)


def xmile_text(start, stop, dt, constant=None, points=None):
    """points must be equidistant in x (XMILE gf with xscale + ypts)"""
    c = DEFAULT["constant"] if constant is None else constant
    pts = DEFAULT["points"] if points is None else points
    xs = [float(p[0]) for p in pts]
    ys = [float(p[1]) for p in pts]
    return _TEMPLATE.format(start=_fmt(start), stop=_fmt(stop), dt=_fmt(dt), constant=_fmt(c), xmin=_fmt(xs[0]), xmax=_fmt(xs[-1]),
                            ypts=",".join(_fmt(y) for y in ys))


_counter = [0]


def fresh_model(start, stop, dt, constant=None, points=None, workdir="."):
    from BPTK_Py.sdcompiler.compile import compile_xmile
    _counter[0] += 1
    name = "vx4_%d_%d" % (os.getpid(), _counter[0])
    src = os.path.join(workdir, name + ".stmx")
    dest = os.path.join(workdir, name + ".py")
    with open(src, "w") as f:
        f.write(xmile_text(start, stop, dt, constant, points))
    compile_xmile(target="py", src=src, dest=dest)
    if workdir not in sys.path:
        sys.path.insert(0, workdir)
    importlib.invalidate_caches()
    mod = importlib.import_module(name)
    m = mod.simulation_model()
    sys.modules.pop(name, None)
    for p in (src, dest):
        try:
            os.remove(p)
        except OSError:
            pass
    return m
