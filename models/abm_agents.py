"""Instrumented Agent / Model subclasses driven by a script (abm-world).

All instrumentation lives in harness subclasses of the repository's public base classes
(`Agent`, `Model`, `DataCollector`): the scheduler, the event plumbing, the registry and the
data collector that run are the repository's own.

A `World` object hangs off the model.  It holds the script
    sends[(k, agent_id)]      -> [ {uid, to, delay|None, name} ]   events the agent sends in `act` of step k
    hook_ops[(k, "begin"|"end")] -> [population ops]                applied inside the round hooks of step k
    state_script[(k, agent_id)] -> new state                       applied in `act` of step k
    act_ops[(k, agent_id)]    -> [delete ops]                      applied at the end of that agent's `act`
and records what happened
    calls    [(kind, ...)]   begin / handle / act / end / collect, in order
    handled  [(k, agent_id, uid, agent_state)]
    sent     [(k, uid, to, delay)]  sends that were actually performed (the sender was alive)
    snaps    {time: [(id, type, state, {prop: value})]}  population at the end of end_round
k is the 1-based number of the step being executed (counted in begin_round).
"""
from BPTK_Py import Agent, Model, Event, DelayedEvent, DataCollector

STATES = ["idle", "busy", "done"]
EVENT_NAMES = ["ping", "pong"]


class World:
    def __init__(self):
        self.k = 0
        self.sends = {}
        self.hook_ops = {}
        self.state_script = {}
        self.prop_script = {}
        self.act_ops = {}       # (k, agent_id) -> [population ops] applied at the END of that agent's act
        self.hook_sends = {}    # (k, "begin"|"end") -> [send dicts | broadcast dicts] performed by the model inside the round hook
        self.calls = []
        self.handled = []
        self.sent = []
        self.snaps = {}
        self.created = []       # ids in creation order (as observed by the factory)
        self.cache_hooks = {}   # agent_id -> one-shot behaviour of that agent's reset_cache() callback: {"do": "create", "type": t} | {"do": "raise"}
        self.errors = []

    def apply_op(self, model, op):
        """population operation through the repository's public API"""
        kind = op["op"]
        if kind == "hook":
            # (harness only) the agent's documented reset_cache() callback gets a one-shot behaviour
            self.cache_hooks[op["id"]] = {x: y for x, y in op.items() if x not in ("op", "id")}
        elif kind == "reset_cache":
            model.reset_cache()
        elif kind == "stop_run":
            model.scheduler.running = False     # how a run is cancelled: the scheduler's public flag
        elif kind == "create":
            model.create_agent(op["type"], op.get("properties"))
        elif kind == "create_many":
            model.create_agents({"name": op["type"], "count": op["count"], "properties": op.get("properties")})
        elif kind == "delete":
            model.delete_agent(op["id"])
        elif kind == "delete_many":
            ids = list(op["ids"])
            # any collection of ids will do (only membership is asked of it): a tuple, a set, a range, the keys of a dict
            how = op.get("as", "list")
            coll = {"list": ids, "tuple": tuple(ids), "set": set(ids), "frozenset": frozenset(ids), "keys": {i: None for i in ids}.keys(),
                    "range": range(min(ids), max(ids) + 1) if ids and how == "range" else ids}[how]
            model.delete_agents(coll)
        elif kind == "delete_then_touch":
            # the caller keeps the object, deletes the agent and then still writes to the object (agent code that marks itself
            # "dead" after removing itself does this): the registry only knows live agents
            obj = model.agent(op["id"])
            model.delete_agent(op["id"])
            if obj is not None:
                obj.state = op["state"]
        elif kind == "delete_type":
            # the caller hands the registry's OWN id list back to delete_agents
            model.delete_agents(model.agent_ids(op["type"]))
        elif kind == "delete_each_of_type":
            for i in model.agent_ids(op["type"]):
                model.delete_agent(i)
        elif kind == "configure" and op.get("via") == "model":
            # the dictionary form (what scenario files use): run specs, properties and agents in one call
            model.configure({"runspecs": {"starttime": model.starttime, "stoptime": model.stoptime, "dt": model.dt}, "properties": {},
                             "agents": [{"name": t, "count": c} for t, c in op["spec"]]})
        elif kind == "configure":
            model.configure_agents([{"name": t, "count": c} for t, c in op["spec"]])
        elif kind == "configure_bad":
            # a reconfiguration that names an agent type nobody registered: raises half-way
            model.configure_agents([{"name": t, "count": c} for t, c in op["spec"]])
        elif kind == "reset":
            model.reset()
        elif kind == "set_state":
            a = model.agent(op["id"])
            if a is not None:
                a.state = op["state"]
        else:
            raise ValueError(kind)


class ScriptAgent(Agent):
    def __init__(self, agent_id, model, properties, agent_type="a"):
        super().__init__(agent_id=agent_id, model=model, properties=properties, agent_type=agent_type)

    def initialize(self):
        self.state = "idle"
        w = self.model.world
        w.created.append(self.id)
        for ev in EVENT_NAMES:
            self.register_event_handler(STATES, ev, self._on_event)
        if "x" not in self.properties:
            self.set_property("x", {"type": "Double", "value": 0.5 * self.id - 1.0})
        if "n" not in self.properties:
            self.set_property("n", {"type": "Integer", "value": (self.id * 7) % 5 - 2})
        if "x_2" not in self.properties:
            # (property names are names: an underscore in one is part of it)
            self.set_property("x_2", {"type": "Double", "value": 1.5 * self.id + 0.25})
        if self.id % 2 == 1 and "y" not in self.properties:
            # a numeric property that only SOME agents of a type carry (never the first one created)
            self.set_property("y", {"type": "Double", "value": 0.25 * self.id})
        if "label" not in self.properties:
            self.set_property("label", {"type": "String", "value": "agent%d" % self.id})

    def receive_event(self, event):
        # a dispatcher: an event that says so is forwarded at RECEIPT (while the scheduler is still distributing this step's events)
        super().receive_event(event)
        fwd = event.data.get("fwd") if isinstance(event.data, dict) else None
        if fwd:
            w = self.model.world
            self.model.enqueue_event(Event("ping", self.id, fwd["to"], data={"uid": fwd["uid"]}))
            w.sent.append((w.k, fwd["uid"], fwd["to"], None))

    def reset_cache(self):
        h = self.model.world.cache_hooks.pop(self.id, None)
        if h is not None:
            if h["do"] == "create":
                self.model.create_agent(h["type"], None)
            else:
                raise RuntimeError("reset_cache callback of agent %d fails" % self.id)

    def _on_event(self, event):
        w = self.model.world
        uid = event.data["uid"] if isinstance(event.data, dict) else None
        w.handled.append((w.k, self.id, uid, self.state))
        if uid is not None and uid == getattr(w, "poison_uid", None) and not getattr(w, "poison_fired", False):
            w.poison_fired = True       # (harness) an injected, transient handler fault
            raise RuntimeError("handler of event %r fails" % uid)

    def handle_events(self, time, sim_round, step):
        self.model.world.calls.append(("handle", self.id, time))
        super().handle_events(time, sim_round, step)

    def act(self, time, round_no, step_no):
        w = self.model.world
        w.calls.append(("act", self.id, time))
        ns = w.state_script.get((w.k, self.id))
        if ns is not None:
            self.state = ns
        ps = w.prop_script.get((w.k, self.id))
        if ps is not None:
            for name, value in ps.items():
                if name == "n" and value != int(value):
                    # set_property_value would truncate it; set_property stores what it is given (as the scenario
                    # dictionary and the constructor do): an Integer-declared property that holds 2.5
                    self.set_property(name, {"type": "Integer", "value": value})
                else:
                    self.set_property_value(name, value)
        for s in w.sends.get((w.k, self.id), ()):
            send(self.model, w, s, self.id)
        for op in w.act_ops.get((w.k, self.id), ()):
            if op["op"] == "sd_edit":
                # a hybrid model: the agent changes an SD equation while it acts (every such edit resets the SD cache)
                if "price" not in self.model.constants:
                    self.model.constant("price")
                self.model.constants["price"].equation = float(op["value"])
                continue
            if op["op"] == "raise":
                # (harness) an injected fault: this agent's act fails half-way
                w.failed_acts = getattr(w, "failed_acts", [])
                w.failed_acts.append((w.k, self.id, time))
                raise RuntimeError("act of agent %d fails at %r" % (self.id, time))
            w.apply_op(self.model, op)


class BoxAgent(ScriptAgent):
    """a container-like agent (a warehouse, a queue): it has a length, and it is EMPTY - falsy - unless it is busy.
    An agent is an agent whatever its truth value."""

    def __len__(self):
        return 1 if self.state == "busy" else 0

    # ... and it compares by VALUE: two boxes in the same state are equal (they are still two agents, with two ids)
    def __eq__(self, other):
        return isinstance(other, BoxAgent) and self.state == other.state

    def __ne__(self, other):
        return not self.__eq__(other)

    __hash__ = Agent.__hash__


class BareAgent(ScriptAgent):
    """an agent that carries no properties at all (a type listed without a `properties` section): it still has a state and counts"""

    def initialize(self):
        self.state = "idle"
        self.model.world.created.append(self.id)
        for ev in EVENT_NAMES:
            self.register_event_handler(STATES, ev, self._on_event)

    def set_property_value(self, name, value):
        pass        # (the property script of the harness addresses ids, not types)

    def set_property(self, name, data):
        pass


class Memo(Event):
    """application-defined event classes: an event is whatever IS-A Event / DelayedEvent"""


class Shipment(DelayedEvent):
    pass


def send(model, w, s, sender_id):
    sub = s["uid"] % 3 == 0          # every third event is an instance of an application-defined subclass
    # copies > 1: the sender sends the SAME message several times (equal name, sender, receiver and payload - two orders for the
    # same article): they are separate events, each of them is handled
    for _ in range(s.get("copies", 1)):
        data = {"uid": s["uid"]}
        if s.get("fwd"):
            data["fwd"] = dict(s["fwd"])
        if s.get("delay") is None:
            ev = (Memo if sub else Event)(s.get("name", "ping"), sender_id, s["to"], data=data)
        else:
            ev = (Shipment if sub else DelayedEvent)(s.get("name", "ping"), sender_id, s["to"], s["delay"], data=data)
        model.enqueue_event(ev)
        w.sent.append((w.k, s["uid"], s["to"], s.get("delay")))


class TeamAgent(ScriptAgent):
    """an agent that creates its member agents while it is being initialised (nested creation)"""
    MEMBERS = 2

    def initialize(self):
        super().initialize()
        for _ in range(self.MEMBERS):
            self.model.create_agent("a", None)


class CapAgent(ScriptAgent):
    """a capped population: a newcomer replaces the oldest member of its type once there are CAP of them
    (a deletion nested inside a creation)"""
    CAP = 2

    def initialize(self):
        super().initialize()
        ids = list(self.model.agent_ids("cap"))
        if len(ids) >= self.CAP:
            self.model.delete_agent(ids[0])


class LoggingCollector(DataCollector):
    """the repository's collector; only logs that it was asked to collect"""

    def __init__(self):
        super().__init__()
        self.world = None

    def collect_agent_statistics(self, time, agents):
        if self.world is not None:
            self.world.calls.append(("collect", time))
        return super().collect_agent_statistics(time, agents)


class ScriptModel(Model):
    TYPES = ("a", "b")

    def __init__(self, starttime=0, stoptime=0, dt=1, name="", scheduler=None, data_collector=None):
        super().__init__(starttime=starttime, stoptime=stoptime, dt=dt, name=name, scheduler=scheduler,
                         data_collector=data_collector)
        self.world = World()
        if isinstance(data_collector, LoggingCollector):
            data_collector.world = self.world

    def instantiate_model(self):
        for t in self.TYPES:
            cls = BoxAgent if t == "b" else ScriptAgent         # every agent of type "b" is container-like
            self.register_agent_factory(t, (lambda tt, cls_: (lambda agent_id, model, properties: cls_(agent_id, model, properties, tt)))(t, cls))
        self.register_agent_factory("c", lambda agent_id, model, properties: BareAgent(agent_id, model, properties, "c"))
        self.register_agent_factory("team", lambda agent_id, model, properties: TeamAgent(agent_id, model, properties, "team"))
        self.register_agent_factory("cap", lambda agent_id, model, properties: CapAgent(agent_id, model, properties, "cap"))
        if isinstance(self.data_collector, LoggingCollector):
            self.data_collector.world = self.world

    def begin_round(self, time, sim_round, step):
        w = self.world
        w.k += 1
        w.calls.append(("begin", time, sim_round, step))
        for op in w.hook_ops.get((w.k, "begin"), ()):
            w.apply_op(self, op)
        self._hook_sends("begin")

    def _hook_sends(self, where):
        w = self.world
        for s in w.hook_sends.get((w.k, where), ()):
            if "broadcast" in s:
                def factory(agent_id, s=s):
                    data = {"uid": s["uid_base"] * 1000 + agent_id}
                    w.sent.append((w.k, data["uid"], agent_id, s.get("delay")))
                    if s.get("delay") is None:
                        return Event(s.get("name", "ping"), 0, agent_id, data=data)
                    return DelayedEvent(s.get("name", "ping"), 0, agent_id, s["delay"], data=data)
                self.broadcast_event(s["broadcast"], factory)
            else:
                send(self, w, s, 0)

    def end_round(self, time, sim_round, step):
        w = self.world
        w.calls.append(("end", time, sim_round, step))
        for op in w.hook_ops.get((w.k, "end"), ()):
            w.apply_op(self, op)
        self._hook_sends("end")
        snap = []
        for a in self.agents:
            props = {n: p["value"] for n, p in a.properties.items() if p["type"] in ("Integer", "Double")}
            snap.append((a.id, a.agent_type, a.state, props))
        w.snaps[time] = snap


def make_model(start, stop, dt, name="abm", collector=True):
    from BPTK_Py import SimultaneousScheduler
    m = ScriptModel(starttime=start, stoptime=stop, dt=dt, name=name, scheduler=SimultaneousScheduler(),
                    data_collector=LoggingCollector() if collector else None)
    m.run_specs(int(start), int(stop), dt)      # the scheduler iterates range(starttime, stoptime + 1)
    m.instantiate_model()
    return m
