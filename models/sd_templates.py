"""Small SD model templates built with the real SD DSL, each with a closed-form reference
over exact rationals.

T1  stock <- flow <- constant                       (constants: constant;  initial: s0)
T2  stockA -move-> stockB, gain = k*lookup(time,tbl), move = gain - drain*lookup(time,tbl2)   (biflow, converter, two named tables)
T3  tank initialised from constant `init`, outflow leak = max(0, net(rate)) with the user function net(x) = x - threshold, half = tank/2 (converter on a stock)
T5  pile <- lagged * gain, lagged = delay(pace, 1.0) <- constant pace     (a look-back function on a constant, and a second constant)

All default parameters are dyadic (k/8) so that the real code and the rational reference
perform exactly representable arithmetic whenever dt is dyadic as well.
"""
from fractions import Fraction as F
from decimal import Decimal

DEFAULTS = {
    "T1": {"constants": {"constant": 1.0}, "initial": {"stock": 0.0}, "points": {}},
    "T2": {"constants": {"drain": 0.5, "k": 1.5}, "initial": {"stockA": 10.0, "stockB": 2.0},
           "points": {"tbl": [[0.0, 1.0], [4.0, 3.0], [8.0, 0.0], [16.0, 2.0]], "tbl2": [[0.0, 1.0], [100.0, 1.0]]}},
    "T3": {"constants": {"init": 20.0, "rate": 2.5, "threshold": 1.0}, "initial": {}, "points": {}},
    "T5": {"constants": {"pace": 1.0, "gain": 1.0}, "initial": {"pile": 0.0}, "points": {}},
}
LAG = 1.0       # T5: lagged = delay(pace, LAG): a converter that looks BACK at a constant

ELEMENTS = {
    "T1": ["stock", "flow", "constant"],
    "T2": ["stockA", "stockB", "move", "gain", "drain", "k"],
    "T3": ["tank", "leak", "half", "init", "rate", "threshold"],
    "T5": ["pile", "lagged", "pace", "gain"],
}

ELEMENTS["T4"] = ["stock", "flow", "constant", "factor"]      # XMILE-sourced, see models/xmile_t4.py
STOCKS = {"T1": ["stock"], "T2": ["stockA", "stockB"], "T3": ["tank"], "T5": ["pile"]}
CONSTANTS = {"T1": ["constant"], "T2": ["drain", "k"], "T3": ["init", "rate", "threshold"], "T4": ["constant"], "T5": ["pace", "gain"]}
TABLES = {"T1": [], "T2": ["tbl", "tbl2"], "T3": [], "T4": ["factor"], "T5": []}


def merged(template, constants=None, points=None, initial=None):
    d = DEFAULTS[template]
    c = dict(d["constants"])
    c.update(constants or {})
    p = {k: [list(x) for x in v] for k, v in d["points"].items()}
    for k, v in (points or {}).items():
        p[k] = [list(x) for x in v]
    i = dict(d["initial"])
    i.update(initial or {})
    return c, p, i


def build(template, start=0.0, stop=10.0, dt=1.0, constants=None, points=None, initial=None, name=None):
    """Build a fresh Model with the template's DSL definitions and these values written
    directly into the DSL (this is also the C06/C07 oracle: "a freshly built model carrying
    exactly that scenario's settings")."""
    from BPTK_Py import Model
    m = Model(starttime=start, stoptime=stop, dt=dt, name=name or ("m" + template))
    define(m, template, constants, points, initial)
    return m


def define(m, template, constants=None, points=None, initial=None):
    """write the template's DSL definitions into an existing Model"""
    from BPTK_Py import sd_functions as sd
    c, p, i = merged(template, constants, points, initial)
    if template == "T1":
        stock = m.stock("stock")
        flow = m.flow("flow")
        constant = m.constant("constant")
        stock.initial_value = float(i["stock"])
        stock.equation = flow
        flow.equation = constant
        constant.equation = float(c["constant"])
    elif template == "T2":
        a = m.stock("stockA")
        b = m.stock("stockB")
        move = m.biflow("move")
        gain = m.converter("gain")
        drain = m.constant("drain")
        k = m.constant("k")
        m.points["tbl"] = [list(x) for x in p["tbl"]]
        m.points["tbl2"] = [list(x) for x in p["tbl2"]]
        a.initial_value = float(i["stockA"])
        b.initial_value = float(i["stockB"])
        drain.equation = float(c["drain"])
        k.equation = float(c["k"])
        gain.equation = k * sd.lookup(sd.time(), "tbl")
        move.equation = gain - drain * sd.lookup(sd.time(), "tbl2")
        a.equation = -move
        b.equation = move
    elif template == "T3":
        tank = m.stock("tank")
        leak = m.flow("leak")
        init = m.constant("init")
        rate = m.constant("rate")
        thr = m.constant("threshold")
        init.equation = float(c["init"])
        rate.equation = float(c["rate"])
        thr.equation = float(c["threshold"])
        half = m.converter("half")
        tank.initial_value = init
        # the threshold enters through the BODY of a user function (the model handle it is evaluated with), not through anything
        # the equation names: a scenario's function must read that scenario's model
        net = m.function("net", lambda model, t, x: x - model.evaluate_equation("threshold", t))
        leak.equation = net(rate)
        tank.equation = -leak
        half.equation = tank * 0.5          # a converter that depends on a stock
    elif template == "T5":
        pace = m.constant("pace")
        lagged = m.converter("lagged")
        pile = m.stock("pile")
        gain = m.constant("gain")
        pace.equation = float(c["pace"])
        gain.equation = float(c["gain"])
        lagged.equation = sd.delay(m, pace, LAG)
        pile.initial_value = float(i["pile"])
        pile.equation = lagged * gain        # (a second constant, which nothing looks back at)
    else:
        raise ValueError(template)
    return m


# ------------------------------------------------------------------ exact grid

def dec(x):
    return Decimal(repr(float(x))) if not isinstance(x, Decimal) else x


def grid(start, stop, dt):
    """Decimal grid start, start+dt, ... <= stop (labels as the property wants them)."""
    s, e, d = dec(start), dec(stop), dec(dt)
    out = []
    i = 0
    while s + i * d <= e:
        out.append(s + i * d)
        i += 1
    return out


def label(d):
    return float(str(d))


# ------------------------------------------------------------------ closed forms

def _lookup(x, pts):
    xs = [F(str(a)) for a, _ in pts]
    ys = [F(str(b)) for _, b in pts]
    if x <= xs[0]:
        return ys[0]
    if x >= xs[-1]:
        return ys[-1]
    for j in range(len(xs) - 1):
        if xs[j] <= x <= xs[j + 1]:
            if xs[j + 1] == xs[j]:
                return ys[j]
            return ys[j] + (ys[j + 1] - ys[j]) * (x - xs[j]) / (xs[j + 1] - xs[j])
    raise AssertionError


def reference(template, start, dt, nsteps, params_at, initial=None):
    """Exact explicit-Euler trajectory.

    params_at(k) -> (constants dict, points dict) in force at grid index k (piecewise
    constant parameters).  Non-stocks at t_k use the parameters in force at t_k;
    stock(t_k) = stock(t_{k-1}) + dt*netflow(t_{k-1}) with the parameters in force at
    t_{k-1}.  Returns [ {element: Fraction} for k in 0..nsteps-1 ].
    """
    t0, h = F(str(start)), F(str(dt))
    out = []
    prev = None
    for k in range(nsteps):
        t = t0 + k * h
        c, p = params_at(k)
        c = {n: F(str(v)) for n, v in c.items()}
        row = {}
        if template == "T1":
            row["constant"] = c["constant"]
            row["flow"] = max(F(0), c["constant"])
            if k == 0:
                row["stock"] = F(str((initial or DEFAULTS["T1"]["initial"])["stock"]))
            else:
                row["stock"] = prev["stock"] + h * prev["flow"]
        elif template == "T2":
            row["drain"] = c["drain"]
            row["k"] = c["k"]
            row["gain"] = c["k"] * _lookup(t, p["tbl"])
            row["move"] = row["gain"] - row["drain"] * _lookup(t, p["tbl2"])
            if k == 0:
                ini = initial or DEFAULTS["T2"]["initial"]
                row["stockA"] = F(str(ini["stockA"]))
                row["stockB"] = F(str(ini["stockB"]))
            else:
                row["stockA"] = prev["stockA"] - h * prev["move"]
                row["stockB"] = prev["stockB"] + h * prev["move"]
        elif template == "T3":
            row["init"] = c["init"]
            row["rate"] = c["rate"]
            row["threshold"] = c["threshold"]
            row["leak"] = max(F(0), c["rate"] - c["threshold"])
            if k == 0:
                row["tank"] = c["init"]
            else:
                row["tank"] = prev["tank"] - h * prev["leak"]
            row["half"] = row["tank"] / 2
        elif template == "T5":
            row["pace"] = c["pace"]
            row["gain"] = c["gain"]
            n = int(F(str(LAG)) / h)
            # what the constant WAS at t - LAG (its value at the start before that): later settings do not rewrite the past
            row["lagged"] = out[k - n]["pace"] if k >= n else (out[0]["pace"] if out else c["pace"])
            if k == 0:
                row["pile"] = F(str((initial or DEFAULTS["T5"]["initial"])["pile"]))
            else:
                row["pile"] = prev["pile"] + h * prev["lagged"] * prev["gain"]
        out.append(row)
        prev = row
    return out


def close(a, b, rel=1e-9):
    a = float(a)
    b = float(b)
    if a == b:
        return True
    return abs(a - b) <= rel * max(1.0, abs(a), abs(b))
