"""C16  Server instances are isolated from one another.

k instances, each with its own request stream; the schedule is the interleaving of the
streams at request granularity (absolute virtual times).  Oracle: replay each instance's own
sub-history alone on a fresh server at the same virtual times; the responses (and, with an
adapter, the durable state file) must be identical.  Thorough adds two client threads on
different instances under the line-level scheduler.
"""
import copy
import json
import random

from sim.core import EventLog, RunResult, derive_seed, canon_json
from sim.clock import timeout_us
from sim.threads import Scheduler, make_policy, run_tasks, Deadlock
from worlds.server_world import ServerWorld
from checks.common import shrink_list

PROPERTY = "C16"
LEVEL = "exploration"
SIM_UNIT = "virtual seconds"
CHUNK = 10
TRACE = ("server/bptkServer.py", "BPTK_Py/bptk.py", "scenariorunners/sd_runner.py", "scenariomanager/scenario.py", "externalstateadapter/externalStateAdapter.py")
RULE = ("a run = k in {2,3,4} instances, each with a generated request stream (create, begin-session with settings "
        "unique to the instance, run-step with/without settings/body, run-steps, stream-steps, session-results, "
        "flat-session-results, end-session, keep-alive, stop-instance, time-outs that do fire on victim instances), "
        "with settings partly unique to the instance and partly drawn from a pool shared by all instances, "
        "merged into one interleaving by virtual time stamps, executed once interleaved and once per instance solo; "
        "non-trivial = at least two instances had requests interleaved with one another (A.. B.. A) and at least one "
        "response comparison was made; distinct = distinct event-log digest of the interleaved run")
REAL = ["BPTK_Py.server.bptkServer", "BPTK_Py.bptk", "BPTK_Py.scenariomanager (cloned models per scenario)",
        "BPTK_Py.scenariorunners.sd_runner", "BPTK_Py.sdsimulation", "BPTK_Py.externalstateadapter", "Flask", "werkzeug test client"]
STUB = ["wall clock", "uuid source", "file system under FileAdapter", "SdSimulation worker threads run serially (quick) / under the scheduler (thorough concurrent phase)",
        "TCP/HTTP server loop"]
ASSUMPTIONS = ["observer instances never outlive their own time-out, victims are compared only up to the moment their fate (stop / expiry) may depend on other traffic, as C17 allows",
               "global endpoints (metrics) are excluded from the comparison",
               "the oracle is self-relative: a defect that is identical in the interleaved and the solo run does not surface here"]
FAULT_KINDS = ["request_interleaving", "victim_expiry", "victim_stop", "preemption"]
PROBES = ["save_of_one_instance_fails", "creation_in_flight_with_another_instances_request", "scenarios_from_files", "session_on_its_own_time_grid", "instances_created_by_one_batch_request", "server_level_run_traffic", "same_settings_on_two_instances", "victim_swept_by_observer_request", "victim_stopped", "settings_differ_between_instances", "shared_base_model",
          "adapter_files_compared"]
EXHAUSTIVE = {"quick": False, "thorough": False}

HOUR = 3600 * 10**6


def plan(tier, verif_seed):
    n = 800 if tier == "quick" else 10**9
    for i in range(n):
        yield {"i": i, "seed": derive_seed(verif_seed, PROPERTY, i), "keep_sample": i < 1,
               "conc": i % 4 == 3}


def _settings(rng, template, k, scen):
    if rng.random() < 0.5:
        # values from a small pool SHARED by all instances: two sessions on equally named scenarios then
        # often pass identical settings (state keyed by scenario name instead of by instance shows up here)
        if template == "T1":
            return {"smA": {scen: {"constants": {"constant": rng.choice([7.0, 9.0])}}}}
        return {"smA": {scen: {"constants": {"k": rng.choice([1.0, 2.0]), "drain": 0.5}}}}
    if template == "T1":
        return {"smA": {scen: {"constants": {"constant": 1.0 + 0.5 * k + rng.choice([0, 0.25])}}}}
    if rng.random() < 0.5:
        return {"smA": {scen: {"constants": {"k": 1.0 + 0.25 * k, "drain": rng.choice([0.0, 0.5, 1.0])}}}}
    return {"smA": {scen: {"points": {"tbl": [[0.0, 1.0 + k], [5.0, 2.0 + k], [10.0, 0.5 * k]]}}}}


def generate(spec):
    rng = random.Random(spec["seed"])
    template = rng.choice(["T1", "T1", "T2"])
    k = rng.choice([2, 3, 3, 4])
    adapter = rng.choice([None, None, "plain", "compressed"])
    shared = rng.random() < 0.4
    eqs = {"T1": ["stock", "flow", "constant"], "T2": ["stockA", "stockB", "move", "gain"]}[template]
    insts = []
    ops = []
    batch = k >= 2 and rng.random() < 0.3
    for j in range(k):
        victim = j > 0 and rng.random() < 0.4 and not (batch and j == 1)
        to = {"seconds": rng.choice([2, 5, 30])} if victim else {"hours": 12}
        if not victim and j > 0 and rng.random() < 0.1:
            to = {"weeks": 600000}      # an instance that asks for a deadline millennia away (the server accepts it) is the others' business as little as any other
        insts.append({"role": "victim" if victim else "observer", "timeout": to})
        t = rng.randrange(0, 3 * 10**6)
        if j >= 2 and rng.random() < 0.5:
            t = rng.randrange(3 * 10**6, 14 * 10**6)      # a late-comer: created after others have stepped, stopped or expired
        if batch and j == 1:
            t = ops[0]["t_us"]          # created by the same /start-instances request as instance 0
        elif batch and j == 0:
            ops.append({"t_us": t, "inst": 0, "op": "create_batch", "insts": [0, 1]})
        else:
            ops.append({"t_us": t, "inst": j, "op": "create"})
        scen = rng.choice(["base", "alt"])
        t += rng.randrange(1, 10**6)
        ops.append({"t_us": t, "inst": j, "op": "begin_session", "scenarios": [scen] if rng.random() < 0.7 else ["base", "alt"],
                    "equations": rng.sample(eqs, rng.randint(1, len(eqs))),
                    "settings": _settings(rng, template, j, scen) if rng.random() < 0.7 else {}})
        if rng.random() < 0.25:
            # this instance's session runs on a time grid of its own (run specs in the begin-session settings)
            st_ = ops[-1]["settings"] = copy.deepcopy(ops[-1]["settings"]) or {}
            d_ = rng.choice([0.25, 0.5])
            st_.setdefault("smA", {}).setdefault(ops[-1]["scenarios"][0], {})["runspecs"] = {"starttime": 1.0, "dt": d_, "stoptime": 1.0 + d_ * rng.choice([6, 10])}
        n = rng.randint(4, 10)
        fate_done = False
        for _ in range(n):
            gap = rng.choice([1, 1000, 10**5, 10**6, 4 * 10**6])
            if victim and not fate_done and rng.random() < 0.25:
                if rng.random() < 0.5:
                    t += gap
                    ops.append({"t_us": t, "inst": j, "op": "stop_instance"})
                    fate_done = True
                    continue
                gap = timeout_us(to) + rng.choice([0, 1, 10**6, 10**6])
                fate_done = True
                if gap - timeout_us(to) == 10**6 and rng.random() < 0.7:
                    # somebody who owns no instance asks for the metrics half a second after the time-out has elapsed: the
                    # instance is certainly swept then, whoever else is around - what it answers afterwards is compared too
                    ops.append({"t_us": t + timeout_us(to) + 500000, "inst": -2, "op": "metrics"})
            t += gap
            r = rng.random()
            if r < 0.30:
                ops.append({"t_us": t, "inst": j, "op": "run_step", "settings": {}})
                if adapter and rng.random() < 0.12:
                    ops[-1]["save_fault"] = rng.choice(["eio_on_open", "eio_on_write"])
                if rng.random() < 0.3:
                    ops[-1]["flat"] = True      # this client wants flat results; nobody else asked for them
            elif r < 0.50:
                ops.append({"t_us": t, "inst": j, "op": "run_step", "settings": _settings(rng, template, j, scen)})
            elif r < 0.56:
                ops.append({"t_us": t, "inst": j, "op": "run_step", "settings": None})
            elif r < 0.68:
                ops.append({"t_us": t, "inst": j, "op": "run_steps", "n": rng.choice([1, 2, 3]),
                            "settings": _settings(rng, template, j, scen) if rng.random() < 0.5 else {}})
            elif r < 0.78:
                ops.append({"t_us": t, "inst": j, "op": "session_results"})
            elif r < 0.84:
                ops.append({"t_us": t, "inst": j, "op": "flat_session_results"})
            elif r < 0.90:
                ops.append({"t_us": t, "inst": j, "op": "keep_alive"})
            elif r < 0.94:
                ops.append({"t_us": t, "inst": j, "op": "end_session"})
                t += 1000
                ops.append({"t_us": t, "inst": j, "op": "begin_session", "scenarios": [scen], "equations": eqs[:2],
                            "settings": {}})
            else:
                ops.append({"t_us": t, "inst": j, "op": "stream", "body": rng.random() < 0.6})
    # a client that opens a stream, reads a little and lets the response sit (its instance stays locked meanwhile), closing it
    # much later: other instances live, step, expire and come back during that time
    for j in range(k):
        if insts[j]["role"] == "observer" and rng.random() < 0.25:
            t0_ = rng.randrange(1 * 10**6, 6 * 10**6)
            ops.append({"t_us": t0_, "inst": j, "op": "stream_open", "chunks": rng.choice([1, 2, 3])})
            ops.append({"t_us": t0_ + rng.choice([3, 8, 40]) * 10**6, "inst": j, "op": "stream_close"})
    # traffic of a party that owns no instance: /run with settings on the server-level bptk
    for _ in range(rng.choice([0, 0, 1, 2, 3])):
        scen = rng.choice(["base", "alt"])
        ops.append({"t_us": rng.randrange(0, 12 * 10**6), "inst": -1, "op": "server_run", "scenario": scen,
                    "settings": _settings(rng, template, rng.randrange(4), scen), "equations": eqs[:2]})
    if k >= 2 and rng.random() < 0.3:
        # two instances end up in sessions of the SAME layout (scenario, equations, one step taken) that differ only in the
        # settings their steps carried, and both ask for their results: each gets its own
        tmax_ = max(o["t_us"] for o in ops)
        lay = {"scenarios": ["base"], "equations": eqs[:2]}
        seq_ = []
        for j_ in (0, 1):
            seq_ += [{"inst": j_, "op": "end_session"}, dict({"inst": j_, "op": "begin_session", "settings": {}}, **lay)]
        for j_ in (0, 1):
            seq_.append({"inst": j_, "op": "run_step", "settings": _settings(rng, template, j_ + 5, "base")})
        for j_ in (0, 1):
            seq_.append({"inst": j_, "op": rng.choice(["session_results", "flat_session_results"])})
        for n_, o_ in enumerate(seq_):
            o_["t_us"] = tmax_ + 1000 * (n_ + 1)
            ops.append(o_)
    ops.sort(key=lambda o: (o["t_us"], o["inst"]))
    # unique time stamps (two requests cannot be served at the same instant by a sequential server)
    last = -1
    for o in ops:
        if o["t_us"] <= last:
            o["t_us"] = last + 1
        last = o["t_us"]
    case = {"property": PROPERTY,
            "config": {"adapter": adapter, "shared_base": shared, "scenario_files": (not shared) and rng.random() < 0.25,
                       "model": {"template": template, "start": 1.0, "stop": 12.0, "dt": 1.0,
                                 "managers": {"smA": {"base": {}, "alt": {"constants": {"constant": 2.0} if template == "T1" else {"drain": 1.0}}}}}},
            "instances": insts, "ops": ops}
    if spec.get("conc"):
        case["conc"] = {"sched": {"kind": "random", "seed": rng.randrange(2**32), "p": rng.choice([0.02, 0.1])}}
        if rng.random() < 0.5:
            case["conc"]["with_creation"] = True
            # ... and a late-comer whose creation is in flight while the first instance is stopped: afterwards the stopped one
            # is gone and the new one works
            tmax = ops[-1]["t_us"]
            knew = len(insts)
            insts.append({"role": "observer", "timeout": {"hours": 12}})
            ops.append({"t_us": tmax + 999, "inst": -2, "op": "metrics"})      # (keeps the creation from being paired with what came before)
            ops.append({"t_us": tmax + 1000, "inst": knew, "op": "create"})
            ops.append({"t_us": tmax + 1001, "inst": 0, "op": "stop_instance"})
            ops.append({"t_us": tmax + 3000, "inst": 0, "op": "session_results"})
            ops.append({"t_us": tmax + 4000, "inst": knew, "op": "begin_session", "scenarios": ["base"], "equations": eqs[:2], "settings": {}})
            ops.append({"t_us": tmax + 5000, "inst": knew, "op": "run_step", "settings": {}})
            ops.append({"t_us": tmax + 6000, "inst": 0, "op": "keep_alive"})
        if rng.random() < 0.5:
            case["conc"]["narrow"] = True
            case["conc"]["sched"]["p"] = rng.choice([0.2, 0.4])
    return case


def _norm(text, idmap):
    for real, name in idmap.items():
        text = text.replace(real, name)
    return text


def _do(w, ids, o, tag=None):
    j = o["inst"]
    op = o["op"]
    if op == "metrics":
        return w.get("/metrics", auth=False)
    if op == "server_run":
        return w.post("/run", {"scenario_managers": ["smA"], "scenarios": [o["scenario"]], "equations": o["equations"], "settings": o["settings"]})
    if op == "create_batch":
        r = w.post("/start-instances", {"timeout": o["timeout"], "instances": len(o["insts"])})
        if r.status == 200 and isinstance(r.body, dict):
            for jj, iid in zip(o["insts"], r.body.get("instance_uuids", [])):
                ids[jj] = iid
        return r
    if op == "create":
        r = w.post("/start-instance", {"timeout": o["timeout"]})
        if r.status == 200 and isinstance(r.body, dict):
            ids[j] = r.body.get("instance_uuid")
        return r
    iid = ids.get(j) or "missing"
    if op == "begin_session":
        return w.post("/%s/begin-session" % iid, {"scenario_managers": ["smA"], "scenarios": o["scenarios"],
                                                  "equations": o["equations"], "settings": o["settings"]})
    if op == "run_step":
        from sim.threads import Scheduler as _S
        if o.get("save_fault") and w.adapter_mode:
            # the state store fails while THIS instance externalises its state (disk error): part of this instance's own
            # history (its solo replay has the same fault), none of the others' business.  (Armed for this request only.)
            w.fs.armed = {"kind": o["save_fault"]}
            w.result.probe("save_of_one_instance_fails")
            try:
                return w.post("/%s/run-step" % iid, None if o["settings"] is None else dict({"settings": o["settings"]}, **({"flatResults": True} if o.get("flat") else {})), tag=tag)
            finally:
                w.fs.armed = None
        return w.post("/%s/run-step" % iid, None if o["settings"] is None else dict({"settings": o["settings"]}, **({"flatResults": True} if o.get("flat") else {})), tag=tag)
    if op == "run_steps":
        return w.post("/%s/run-steps" % iid, {"settings": o["settings"], "numberSteps": o["n"]}, tag=tag)
    if op == "stream":
        r, _, _ = w.stream("/%s/stream-steps" % iid, {"settings": {}} if o.get("body", True) else None, tag=tag)
        return r
    if op == "stream_open":
        from worlds.server_world import Resp
        client = w.app.test_client()
        r0 = client.open("/%s/stream-steps" % iid, method="POST", json={"settings": {}}, buffered=False)
        it = iter(r0.response)
        parts = []
        for _ in range(o["chunks"]):
            try:
                ch = next(it)
            except StopIteration:
                break
            except Exception:
                break
            parts.append(ch if isinstance(ch, str) else ch.decode())
        w.held_streams = getattr(w, "held_streams", {})
        w.held_streams[j] = r0
        canon_parts = []
        for ch in parts:
            try:
                canon_parts.append(json.loads(ch))      # (key order inside a step result is not a difference)
            except Exception:
                canon_parts.append(ch)
        return Resp(r0.status_code, json.dumps(canon_parts, sort_keys=True))
    if op == "stream_close":
        from worlds.server_world import Resp
        r0 = getattr(w, "held_streams", {}).pop(j, None)
        if r0 is not None:
            try:
                r0.close()
            except Exception:
                pass
        return Resp(200 if r0 is not None else 204, "closed")
    if op == "session_results":
        return w.get("/%s/session-results" % iid)
    if op == "flat_session_results":
        return w.get("/%s/flat-session-results" % iid)
    if op == "keep_alive":
        return w.post("/%s/keep-alive" % iid)
    if op == "end_session":
        return w.post("/%s/end-session" % iid)
    if op == "stop_instance":
        return w.post("/%s/stop-instance" % iid)
    raise ValueError(op)


def _run(case, only=None, log=None, res=None, conc=None):
    """Execute the ops (all, or only those of instance `only`) on a fresh world.
    Returns {inst: [(op index, status, normalised body)]}, {inst: durable file or None}."""
    cfg = case["config"]
    log = log if log is not None else EventLog()
    res = res if res is not None else RunResult()
    out = {}
    files = {}
    wcfg = {"model": cfg["model"], "adapter": cfg.get("adapter"), "shared_base": cfg.get("shared_base"), "scenario_files": cfg.get("scenario_files"),
            "threads": "auto" if conc else "serial", "factory_yield": bool(conc and conc.get("with_creation"))}
    with ServerWorld(wcfg, log, res) as w:
        w.boot()
        ids = {}
        ops = [(n, o) for n, o in enumerate(case["ops"]) if only is None or o["inst"] == only or o["inst"] == -2
               or (o["op"] == "create_batch" and only in o["insts"])]
        pos = 0
        while pos < len(ops):
            n, o = ops[pos]
            o = dict(o)
            if o["op"] in ("create", "create_batch"):
                o["timeout"] = case["instances"][o["inst"]]["timeout"]
            # thorough: two consecutive requests of different instances run as concurrent client tasks
            pair = None
            if conc and only is None and pos + 1 < len(ops) and n in conc.get("pairs", ()):  # pragma: no branch
                pair = ops[pos + 1]
            if pair is not None:
                n2, o2 = pair
                o2 = dict(o2)
                if o2["op"] in ("create", "create_batch"):
                    o2["timeout"] = case["instances"][o2["inst"]]["timeout"]
                w.clock.set(max(w.clock.now_us, o["t_us"]))
                box = {}

                def c1():
                    box[n] = _do(w, ids, o, tag="q%d" % n)

                def c2():
                    box[n2] = _do(w, ids, o2, tag="q%d" % n2)
                if conc.get("explicit") is not None:
                    pol = make_policy({"kind": "replay", "preemptions": conc["explicit"].get(str(n), [])})
                else:
                    sp = dict(conc["sched"])
                    sp["seed"] = (sp.get("seed", 0) * 1000003 + n) % (2**32)
                    pol = make_policy(sp)
                if "create" in (o["op"], o2["op"]):
                    # (a creation pair is deterministic: the creation starts, the other request is served while the new instance's
                    #  bptk is being built - the hand-over placed in the factory -, the creation finishes)
                    pol = make_policy({"kind": "default"})
                # one case in two places the pre-emption points inside the state adapter only: the two saves then really overlap
                sched = Scheduler(pol, TRACE[-1:] if (conc.get("narrow") and cfg.get("adapter")) else TRACE, log=log)
                with sched:
                    try:
                        # (the task created last runs first: a creation goes first, so that the other request is served while the
                        #  new instance's bptk is being built)
                        rr = run_tasks(sched, [c2, c1] if o["op"] == "create" and o2["op"] != "create" else [c1, c2])
                    except Deadlock:
                        res.violate("C16.deadlock", {"ops": [n, n2]})
                        rr = []
                for x in rr:
                    if x and x[0] == "exc":
                        raise x[1]
                res.points += sched.points
                res.extra.setdefault("conc_explicit", {})[str(n)] = sched.taken
                if sched.switches:
                    res.fault("preemption", sched.switches)
                for nn, oo in ((n, o), (n2, o2)):
                    r = box.get(nn)
                    if r is not None:
                        log.add("return", nn, r.status)
                        out.setdefault(oo["inst"], []).append((nn, r.status, r.text))
                pos += 2
                continue
            w.clock.set(max(w.clock.now_us, o["t_us"]))
            log.add("invoke", n, o["inst"], o["op"])
            r = _do(w, ids, o)
            log.add("return", n, r.status)
            out.setdefault(o["inst"], []).append((n, r.status, r.text))
            pos += 1
        for r0 in list(getattr(w, "held_streams", {}).values()):
            try:
                r0.close()          # still inside the simulated world (file system, clock)
            except Exception:
                pass
        w.held_streams = {}
        idmap = {v: "INST%d" % k for k, v in ids.items() if v}
        for j, lst in out.items():
            out[j] = [(n, st, _norm(tx, idmap)) for n, st, tx in lst]
        for j, iid in ids.items():
            f = w.fs.files.get("/state/%s.json" % iid) if iid else None
            files[j] = _norm(f, idmap) if f is not None else None
        res.sim_units += w.clock.now_us // 10**6
        res.extra["destroys"] = dict(w.destroys)
    return out, files


def _body(text):
    try:
        return json.loads(text)
    except Exception:
        return text


def _file_obj(text):
    """state file as nested Python data (dict order is not a difference)"""
    if text is None:
        return None
    try:
        d = json.loads(text)
        d["data"]["state"] = json.loads(d["data"]["state"])
        return d
    except Exception:
        return text


def _fate(case):
    """per instance: the op index from which its responses may legitimately depend on other
    traffic (first op at which its full time-out has elapsed since its previous op), or the op
    index after a stop; None for instances that are compared in full."""
    fate = {}
    last = {}
    for n, o in enumerate(case["ops"]):
        j = o["inst"]
        if j < 0:
            continue
        T = timeout_us(case["instances"][j]["timeout"])
        if j in last and j not in fate and o["t_us"] - last[j] >= T:
            swept = any(x["inst"] == -2 and x["op"] == "metrics" and last[j] + T + 1000 <= x["t_us"] < o["t_us"] for x in case["ops"])
            later = [x["t_us"] for x in case["ops"][n + 1:] if x["inst"] == j]
            if swept and not case["config"].get("adapter"):
                # certainly swept before its next request, by a request every replay contains: gone for good (no adapter to
                # bring it back), its answers from here on are the same with and without the other instances
                last[j] = o["t_us"]
                continue
            fate[j] = n
        if o["op"] == "stop_instance" and j not in fate:
            if case["config"].get("adapter"):
                fate[j] = n + 1
            else:
                # (without an adapter nothing can bring a stopped instance back: it is refused from here on, with and without
                #  the other instances - its answers are compared in full)
                fate[j] = 10**9
        last[j] = o["t_us"]
    return fate


def execute(case):
    log = EventLog()
    res = RunResult()
    conc = None
    if case.get("conc"):
        # pick pairs of adjacent ops on different instances, both step-advancing or session ops
        pairs = set()
        ops = case["ops"]
        n = 0
        while n + 1 < len(ops):
            a, b = ops[n], ops[n + 1]
            if a["inst"] != b["inst"] and a["op"] not in ("create", "create_batch", "stop_instance") and b["op"] not in ("create", "create_batch", "stop_instance") \
                    and (a["inst"] >= 0 or b["inst"] >= 0):
                pairs.add(n)
                n += 2
            elif case["conc"].get("with_creation") and a["inst"] != b["inst"] and a["inst"] >= 0 and b["inst"] >= 0 \
                    and sorted([a["op"] == "create", b["op"] == "create"]) == [False, True] and "create_batch" not in (a["op"], b["op"]):
                # one instance is being created (its bptk is being built, which takes a while) while a request of ANOTHER instance
                # - a step, a stop - is served: none of the two is the other's business
                pairs.add(n)
                n += 2
            else:
                n += 1
        conc = {"sched": case["conc"].get("sched"), "explicit": case["conc"].get("explicit"), "pairs": pairs, "narrow": case["conc"].get("narrow"),
                "with_creation": case["conc"].get("with_creation")}
        if case["conc"].get("with_creation") and any(case["ops"][n]["op"] == "create" or case["ops"][n + 1]["op"] == "create" for n in pairs):
            res.probe("creation_in_flight_with_another_instances_request")
        # both requests of a concurrent pair are in flight at the same virtual instant
        case = copy.deepcopy(case)
        for n in pairs:
            case["ops"][n + 1]["t_us"] = case["ops"][n]["t_us"]
            # (an armed disk fault would hit whichever of the two requests writes first: no injected fault inside a pair)
            case["ops"][n].pop("save_fault", None)
            case["ops"][n + 1].pop("save_fault", None)
    inter, ifiles = _run(case, None, log, res, conc=conc)
    fate = _fate(case)
    k = len(case["instances"])
    seq = [o["inst"] for o in case["ops"]]
    if any(o["op"] == "create_batch" for o in case["ops"]):
        res.probe("instances_created_by_one_batch_request")
    if any("runspecs" in json.dumps(o.get("settings") or {}) for o in case["ops"] if o["op"] == "begin_session"):
        res.probe("session_on_its_own_time_grid")
    if any(o["op"] == "server_run" for o in case["ops"]):
        res.probe("server_level_run_traffic")
    interleaved = any(seq[a] != seq[a + 1] for a in range(len(seq) - 1))
    compared = 0
    if case["config"].get("shared_base"):
        res.probe("shared_base_model")
    sets = [canon_json(o.get("settings")) for o in case["ops"] if o["op"] == "begin_session" and o.get("settings")]
    if len(set(sets)) > 1:
        res.probe("settings_differ_between_instances")
    step_sets = {}
    for o in case["ops"]:
        if o["op"] in ("run_step", "run_steps") and o.get("settings"):
            step_sets.setdefault(canon_json(o["settings"]), set()).add(o["inst"])
    if any(len(v) > 1 for v in step_sets.values()):
        res.probe("same_settings_on_two_instances")
    for j in range(k):
        solo, sfiles = _run(case, j)
        a = [x for x in inter.get(j, []) if fate.get(j) is None or x[0] < fate[j]]
        b = [x for x in solo.get(j, []) if fate.get(j) is None or x[0] < fate[j]]
        if j in fate:
            role = case["instances"][j]["role"]
            if any(o["op"] == "stop_instance" and o["inst"] == j for o in case["ops"]):
                res.fault("victim_stop")
                res.probe("victim_stopped")
            else:
                res.fault("victim_expiry")
                # was it swept while an observer made a request?
                T = timeout_us(case["instances"][j]["timeout"])
                prev = [o["t_us"] for o in case["ops"][:fate[j]] if o["inst"] == j][-1]
                if any(o["inst"] != j and prev + T <= o["t_us"] < case["ops"][fate[j]]["t_us"] and o["op"] != "stop_instance"
                       for o in case["ops"]):
                    res.probe("victim_swept_by_observer_request")
        if len(a) != len(b):
            res.violate("C16.response-count", {"inst": j, "interleaved": len(a), "solo": len(b)})
            continue
        for (n1, st1, tx1), (n2, st2, tx2) in zip(a, b):
            compared += 1
            if st1 != st2 or _body(tx1) != _body(tx2):
                o = case["ops"][n1]
                res.violate("C16.response-differs", {"inst": j, "op_index": n1, "op": o["op"], "role": case["instances"][j]["role"],
                                                     "interleaved": [st1, str(tx1)[:300]], "solo": [st2, str(tx2)[:300]]})
                break
        if case["config"].get("adapter") and j not in fate:
            res.probe("adapter_files_compared")
            if _file_obj(ifiles.get(j)) != _file_obj(sfiles.get(j)):
                res.violate("C16.durable-state-differs", {"inst": j, "interleaved": str(ifiles.get(j))[:200], "solo": str(sfiles.get(j))[:200]})
    if interleaved:
        res.fault("request_interleaving", sum(1 for a in range(len(seq) - 1) if seq[a] != seq[a + 1]))
    res.nontrivial = interleaved and compared > 0
    res.digest = log.digest()
    return res


def shrink(case):
    if case.get("conc") and case["conc"].get("explicit") is None:
        # make the schedules of the concurrent pairs explicit, so that the replay file needs no PRNG
        r = execute(case)
        c = copy.deepcopy(case)
        c["conc"] = {"explicit": r.extra.get("conc_explicit", {}), "with_creation": case["conc"].get("with_creation"), "narrow": case["conc"].get("narrow")}
        yield c
    if case.get("conc") and case["conc"].get("explicit"):
        for n, lst in case["conc"]["explicit"].items():
            for cand in shrink_list(lst):
                c = copy.deepcopy(case)
                c["conc"]["explicit"][n] = cand
                yield c
    # drop whole instances (renumbering), then single ops
    k = len(case["instances"])
    if k > 2 and not any(o["op"] == "create_batch" for o in case["ops"]):
        for j in range(k):
            c = copy.deepcopy(case)
            c["instances"].pop(j)
            c["ops"] = [o for o in c["ops"] if o["inst"] != j]
            for o in c["ops"]:
                if o["inst"] > j:
                    o["inst"] -= 1
            yield c
    for cand in shrink_list(case["ops"], min_len=2):
        c = copy.deepcopy(case)
        c["ops"] = copy.deepcopy(cand)
        # every instance still needs its create op first
        ok = True
        seen = set()
        for o in c["ops"]:
            if o["op"] == "create":
                seen.add(o["inst"])
            elif o["op"] == "create_batch":
                seen |= set(o["insts"])
            elif o["inst"] >= 0 and o["inst"] not in seen:
                ok = False
                break
        if ok:
            yield c
    if case["config"].get("adapter"):
        c = copy.deepcopy(case)
        c["config"]["adapter"] = None
        yield c
    if case["config"].get("shared_base"):
        c = copy.deepcopy(case)
        c["config"]["shared_base"] = False
        yield c
    if case.get("conc"):
        c = copy.deepcopy(case)
        c.pop("conc")
        yield c


def trigger(case, v, f):
    t = f["trigger"]["kind"]
    if t == "shared_base_model_points":
        return bool(case["config"].get("shared_base")) and "points" in canon_json(case["ops"])
    return False


def neutralise(case, v, f):
    t = f["trigger"]["kind"]
    if t == "shared_base_model_points":
        c = copy.deepcopy(case)
        c["config"]["shared_base"] = False
        return c
    return None
