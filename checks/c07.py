"""C07  A scenario's settings determine its results exactly.

Same world and oracle as C06; what is varied here is HOW and WHEN a setting arrives:
  1. dict at registration, with and without manager-level base_constants / base_points;
  2. JSON scenario files in ./scenarios/ of the run's scratch directory, read by bptk() at
     construction, the manager spread over two files with base_constants in one of them; the
     model is a DSL module written next to them, and (T4) an .stmx compiled by the real
     transpiler on first load;
  3. begin_session(settings=...);
  4. REST /run with settings;
and the arrival order relative to runs (before the first run, between two runs, after a
cache reset).  Oracle: the same model built directly with these values.
"""
import copy
import json
import os
import random
import shutil
import sys

from sim.core import EventLog, RunResult, derive_seed
from sim import patches
from checks.common import shrink_list
from checks import c06
from models import sd_templates as T
from models import xmile_t4
from worlds.scenario_world import ScenarioWorld

PROPERTY = "C07"
LEVEL = "exploration"
SIM_UNIT = "operations"
CHUNK = 6
RULE = ("a run = one manager (DSL template T1-T3, optionally a second, XMILE-sourced manager T4) whose scenarios receive "
        "constants / points / run specs through a chosen channel (registration dict | JSON files in ./scenarios spread over "
        "one or two files | session settings | REST settings) and arrival order (before the first run, between runs, after "
        "a cache reset), with manager-level base values; every scenario is compared with a model built directly with its "
        "values after every operation; non-trivial = at least one scenario carries a setting that differs from the model's "
        "own value; distinct = distinct event-log digest")
REAL = ["BPTK_Py.bptk (construction from ./scenarios, register_*, run_scenarios, begin_session)", "BPTK_Py.scenariomanager "
        "(ScenarioManagerFactory.__readScenario, base constants across files, ScenarioManagerSd.load_scenarios/add_scenarios, "
        "SimulationScenario)", "BPTK_Py.modelparser (JSON)", "BPTK_Py.sdcompiler (XMILE transpiler, for T4)", "BPTK_Py.scenariorunners.sd_runner",
        "BPTK_Py.sdsimulation", "BPTK_Py.server.bptkServer (/run)"]
STUB = ["the scenario files live in the run's own scratch directory on the real file system (no faults are injected: the property has no fault dimension)",
        "SdSimulation worker threads run serially"]
ASSUMPTIONS = ["run-spec overrides are generated for DSL models only, as the property says",
               "stop times lie on the grid of (start, dt)", "constants given as strings are numeric literals"]
FAULT_KINDS = []
PROBES = ["base_value_edited_in_the_file_and_scenario_reloaded", "files_read_again_by_a_second_bptk", "session_over_scenarios_on_different_grids", "step_settings_expire_with_the_session", "sparse_observation", "observed_together_with_sibling", "sibling_on_another_grid", "channel_dict", "channel_files", "files_split_over_two", "base_constants_inherited", "base_points_inherited", "xmile_sourced_scenario",
          "runspec_override_at_registration", "setting_between_two_runs", "setting_after_reset", "string_valued_constant",
          "scenario_without_overrides"]
EXHAUSTIVE = {"quick": False, "thorough": False}

_uniq = [0]


def plan(tier, verif_seed):
    n = 480 if tier == "quick" else 10**9
    for i in range(n):
        yield {"i": i, "seed": derive_seed(verif_seed, PROPERTY, i), "keep_sample": i < 2}


def generate(spec):
    rng = random.Random(spec["seed"])
    channel = rng.choice(["dict", "files", "files"])
    tpl = rng.choice(["T1", "T2", "T2", "T3"])
    start = rng.choice([0.0, 1.0])
    dt = rng.choice([1.0, 0.5, 0.25])
    base = {"template": tpl, "start": start, "stop": start + dt * rng.choice([4, 6]), "dt": dt, "name": "base0"}
    if rng.random() < 0.4:
        base["constants"] = {c: rng.choice(c06.VALS) for c in rng.sample(T.CONSTANTS[tpl], 1)}
    mgr = {"name": "smF", "base": 0, "scenarios": {}}
    if rng.random() < 0.6:
        bs = c06.gen_settings(rng, tpl, base, allow_runspecs=False, allow_strings=(channel == "files"))
        if "constants" in bs:
            mgr["base_constants"] = bs["constants"]
        if "points" in bs:
            mgr["base_points"] = bs["points"]
    mgr["scenarios"]["plain"] = {}
    for k in range(rng.choice([1, 2, 3])):
        mgr["scenarios"]["sc%d" % k] = c06.gen_settings(rng, tpl, base, allow_strings=True, partial_runspecs=True)
    cfg = {"channel": channel, "bases": [base], "managers": [mgr], "split": channel == "files" and rng.random() < 0.6,
           "base_values_in_second_file": rng.random() < 0.5}
    if channel == "files" and rng.random() < 0.45:
        xs = rng.choice([0.0, 1.0])
        xd = rng.choice([1.0, 0.5])
        xm = {"start": xs, "stop": xs + xd * rng.choice([4, 6]), "dt": xd, "scenarios": {"xplain": {}}}
        for k in range(rng.choice([1, 2])):
            sd = {}
            if rng.random() < 0.7:
                v = rng.choice([0.5, 2.0, 3.0])
                sd["constants"] = {"constant": str(v) if rng.random() < 0.3 else v}
            if rng.random() < 0.5:
                sd["points"] = {"factor": [[0.0, rng.choice([0.0, 2.0])], [5.0, rng.choice([1.0, 3.0])], [10.0, rng.choice([0.5, 5.0])]]}
            xm["scenarios"]["x%d" % k] = sd
        if rng.random() < 0.4:
            xm["base_constants"] = {"constant": rng.choice([0.25, 4.0])}
        cfg["xmile"] = xm
    second = None
    if channel == "dict" and rng.random() < 0.5:
        # a second manager on the same model that also owns a scenario called "plain": one session may cover both
        second = {"name": "smG", "base": 0, "scenarios": {"plain": {}, "g0": c06.gen_settings(rng, tpl, base, partial_runspecs=True)}}
        cfg["managers"].append(second)
    # later settings, in a chosen arrival order
    keys = [("smF", s) for s in mgr["scenarios"]] + ([("smG", s) for s in second["scenarios"]] if second else [])
    xkeys = [("smX", s) for s in cfg.get("xmile", {}).get("scenarios", {})]
    ops = []
    for _ in range(rng.randint(2, 7)):
        r = rng.random()
        mgrn, sc = rng.choice(keys + xkeys)
        is_x = mgrn == "smX"
        if is_x:
            st = {}
            if rng.random() < 0.7:
                st["constants"] = {"constant": rng.choice([0.5, 1.0, 6.0])}
            if rng.random() < 0.4 or not st:
                st["points"] = {"factor": [[0.0, 1.0], [5.0, rng.choice([0.0, 6.0])], [10.0, 2.0]]}
            eqs = rng.sample(xmile_t4.ELEMENTS, 2)
        else:
            st = c06.gen_settings(rng, tpl, base)
            eqs = rng.sample(T.ELEMENTS[tpl], 2)
        if r < 0.25:
            ops.append({"op": "run", "managers": [mgrn], "scenarios": [sc], "equations": eqs, "format": rng.choice(["df", "dict", "json"])})
        elif r < 0.55:
            ops.append({"op": "rest_run", "manager": mgrn, "scenario": sc, "settings": {mgrn: {sc: st}}, "equations": eqs})
        elif r < 0.85:
            smgrs = [mgrn]
            if second and sc == "plain" and rng.random() < 0.7:
                smgrs = ["smF", "smG"] if rng.random() < 0.5 else ["smG", "smF"]      # the settings still address ONE of them
            ops.append({"op": "begin_session", "managers": smgrs, "scenarios": [sc], "settings": {mgrn: {sc: st}}, "equations": eqs})
            if rng.random() < 0.5:
                ops.append({"op": "run_step", "settings": {}})
            if rng.random() < 0.35 and not is_x:
                # a step that carries settings of its own (they last until the session ends), then the session ends and the
                # scenario's declared settings are what counts again
                ops.append({"op": "run_step", "settings": {mgrn: {sc: c06.gen_settings(rng, tpl, base, allow_runspecs=False)}}})
            ops.append({"op": "end_session"})
            if rng.random() < 0.5:
                ops.append({"op": "run", "managers": [mgrn], "scenarios": [sc], "equations": eqs, "format": rng.choice(["df", "dict", "json"])})
        elif channel == "files" and not is_x and r < 0.91 and sum(1 for o_ in ops if o_["op"] == "add_scenario") < 2:
            # a NEW scenario is registered in the file-based manager (bptk.register_scenarios): none of its siblings' business
            ops.append({"op": "add_scenario", "manager": mgrn, "name": "late%d" % sum(1 for o_ in ops if o_["op"] == "add_scenario"),
                        "dict": c06.gen_settings(rng, tpl, base, partial_runspecs=True)})
        elif r < 0.93 or channel != "dict" or is_x:
            ops.append({"op": "reset_cache", "manager": mgrn, "scenario": sc})
        else:
            # the scenario is registered again under its name with another definition: what the new definition does not
            # mention goes back to the manager's base values / the model's own
            ops.append({"op": "add_scenario", "manager": mgrn, "name": sc, "dict": c06.gen_settings(rng, tpl, base, partial_runspecs=True)})
    if rng.random() < 0.25 and not cfg.get("xmile"):
        # the FIRST thing that happens to a scenario registered with run specs of its own is a REST run that names only a new
        # stop time (nothing has simulated the scenario before: observation is sparse in these histories)
        withrs = [s_ for s_, d_ in mgr["scenarios"].items() if "runspecs" in d_ and "starttime" in d_["runspecs"]]
        if withrs:
            sc_ = rng.choice(withrs)
            ops.insert(0, {"op": "rest_run", "manager": "smF", "scenario": sc_, "settings": {"smF": {sc_: {"runspecs": {"stoptime": 9.0}}}},
                           "equations": rng.sample(T.ELEMENTS[tpl], 2)})
            return {"property": PROPERTY, "config": cfg, "ops": ops, "observe": "sparse"}
    return {"property": PROPERTY, "config": cfg, "ops": ops, "observe": rng.choice(["each", "each", "sparse"])}


# ------------------------------------------------------------------ file channel

def _module_source(base):
    return ("from BPTK_Py import Model\n"
            "from models import sd_templates as T\n\n\n"
            "class TModel(Model):\n"
            "    def __init__(self):\n"
            "        super().__init__(starttime=%r, stoptime=%r, dt=%r, name='filemodel')\n"
            "        T.define(self, %r, constants=%r, points=%r, initial=%r)\n"
            % (base["start"], base["stop"], base["dt"], base["template"], base.get("constants"), base.get("points"), base.get("initial")))


def write_files(cfg, workdir):
    """returns (module name, list of files written)"""
    _uniq[0] += 1
    mod = "vmod_%d_%d" % (os.getpid(), _uniq[0])
    sdir = os.path.join(workdir, "scenarios")
    if os.path.isdir(sdir):
        shutil.rmtree(sdir)
    os.makedirs(sdir)
    written = [sdir]
    with open(os.path.join(workdir, mod + ".py"), "w") as f:
        f.write(_module_source(cfg["bases"][0]))
    written.append(os.path.join(workdir, mod + ".py"))
    m = cfg["managers"][0]
    names = list(m["scenarios"])
    first = names if not cfg.get("split") else names[: max(1, len(names) // 2)]
    second = [n for n in names if n not in first]
    d1 = {"model": mod + ".TModel", "scenarios": {n: copy.deepcopy(m["scenarios"][n]) for n in first}}
    d2 = {"model": mod + ".TModel", "scenarios": {n: copy.deepcopy(m["scenarios"][n]) for n in second}}
    target = d2 if (second and cfg.get("base_values_in_second_file")) else d1
    if m.get("base_constants"):
        target["base_constants"] = copy.deepcopy(m["base_constants"])
    if m.get("base_points"):
        target["base_points"] = copy.deepcopy(m["base_points"])
    with open(os.path.join(sdir, "a_first.json"), "w") as f:
        json.dump({m["name"]: d1}, f)
    if second:
        with open(os.path.join(sdir, "b_second.json"), "w") as f:
            json.dump({m["name"]: d2}, f)
    xm = cfg.get("xmile")
    if xm:
        xdir = os.path.join(workdir, "xsrc_%d" % _uniq[0])
        os.makedirs(xdir, exist_ok=True)
        written.append(xdir)
        with open(os.path.join(xdir, "t4.stmx"), "w") as f:
            f.write(xmile_t4.xmile_text(xm["start"], xm["stop"], xm["dt"]))
        dx = {"model": "xsrc_%d/t4" % _uniq[0], "source": "xsrc_%d/t4.stmx" % _uniq[0], "scenarios": copy.deepcopy(xm["scenarios"])}
        if xm.get("base_constants"):
            dx["base_constants"] = copy.deepcopy(xm["base_constants"])
        with open(os.path.join(sdir, "c_xmile.json"), "w") as f:
            json.dump({"smX": dx}, f)
    return mod, written


def setup_files(case, log, res, workdir, reuse=False):
    import BPTK_Py
    cfg = case["config"]
    if reuse:
        mod, written = None, []         # the files (and the module they name) are there already: read them as they are
    else:
        mod, written = write_files(cfg, workdir)
    if workdir not in sys.path:
        sys.path.insert(0, workdir)
    import importlib
    importlib.invalidate_caches()
    w = ScenarioWorld(cfg, log, res)
    w.workdir = workdir
    w.bptk = BPTK_Py.bptk()
    base = cfg["bases"][0]
    m = cfg["managers"][0]
    w.mgr_base[m["name"]] = 0
    w.mgr_defaults[m["name"]] = (copy.deepcopy(m.get("base_constants") or {}), copy.deepcopy(m.get("base_points") or {}))
    for sname, sdict in m["scenarios"].items():
        consts = dict(m.get("base_constants") or {})
        consts.update(sdict.get("constants", {}))
        pts = dict(m.get("base_points") or {})
        pts.update(sdict.get("points", {}))
        rs = sdict.get("runspecs", {})
        w.shadow[(m["name"], sname)] = {"template": base["template"], "base": 0, "constants": consts, "points": pts,
                                        "start": rs.get("starttime", base["start"]), "stop": rs.get("stoptime", base["stop"]),
                                        "dt": rs.get("dt", base["dt"]), "tainted": set()}
    xm = cfg.get("xmile")
    if xm:
        for sname, sdict in xm["scenarios"].items():
            consts = dict(xm.get("base_constants") or {})
            consts.update(sdict.get("constants", {}))
            w.shadow[("smX", sname)] = {"template": "T4", "base": 0, "constants": consts, "points": dict(sdict.get("points", {})),
                                        "start": xm["start"], "stop": xm["stop"], "dt": xm["dt"], "tainted": set()}
    w._cleanup = (mod, written)
    w.reg_shadow = {k: copy.deepcopy(v) for k, v in w.shadow.items() if k[0] != "smX"}
    return w


def cleanup_files(w):
    mod, written = getattr(w, "_cleanup", (None, []))
    for p in written:
        try:
            if os.path.isdir(p):
                shutil.rmtree(p, ignore_errors=True)
            else:
                os.remove(p)
        except OSError:
            pass
    for name in list(sys.modules):
        if name == mod or name.startswith("xsrc_") or name.startswith("vx4_"):
            sys.modules.pop(name, None)


def execute(case):
    log = EventLog()
    res = RunResult()
    cfg = case["config"]
    workdir = os.getcwd()
    m = cfg["managers"][0]
    res.probe("channel_" + cfg["channel"])
    if cfg.get("split") and len(m["scenarios"]) > 1:
        res.probe("files_split_over_two")
    if m.get("base_constants"):
        res.probe("base_constants_inherited")
    if m.get("base_points"):
        res.probe("base_points_inherited")
    if cfg.get("xmile"):
        res.probe("xmile_sourced_scenario")
    if any("runspecs" in sd for sd in m["scenarios"].values()):
        res.probe("runspec_override_at_registration")
    res.probe("scenario_without_overrides")
    if any(isinstance(v, str) for sd in list(m["scenarios"].values()) + [m.get("base_constants") or {}]
           for v in (sd.get("constants", {}) if "constants" in sd or "points" in sd or not sd else sd).values() if not isinstance(v, dict)):
        res.probe("string_valued_constant")
    seen_run = False
    for op in case["ops"]:
        if op["op"] == "run":
            seen_run = True
        if op["op"] in ("rest_run", "begin_session") and seen_run:
            res.probe("setting_between_two_runs")
        if op["op"] == "reset_cache":
            seen_run = True
            res.probe("setting_after_reset") if any(o["op"] in ("rest_run", "begin_session") for o in case["ops"][case["ops"].index(op):]) else None
    with patches.installed(threads="serial"):
        if cfg["channel"] == "dict":
            w = ScenarioWorld(cfg, log, res)
            w.workdir = workdir
            w.setup()
            c06.run_history(w, case, res, log, PROPERTY)
        else:
            w = None
            try:
                w = setup_files(case, log, res, workdir)
                missing = [k for k in w.shadow if k[0] not in w.bptk.scenario_manager_factory.scenario_managers
                           or k[1] not in w.bptk.scenario_manager_factory.scenario_managers[k[0]].scenarios]
                if missing:
                    res.violate("C07.scenario-from-file-missing", {"missing": [list(k) for k in missing][:4]})
                else:
                    holder = []

                    def twin():
                        w2 = setup_files(case, EventLog(), RunResult(), workdir)
                        holder.append(w2)
                        return w2
                    c06.run_history(w, case, res, log, PROPERTY, twin_factory=twin)
                    if not res.violations:
                        # the unchanged files are read again by a new bptk() in the same process (what a server's factory does for
                        # every new instance): each scenario is what its FILE says, whatever the first reader was given later
                        res.probe("files_read_again_by_a_second_bptk")
                        r3 = RunResult()
                        w3 = setup_files(case, EventLog(), r3, workdir, reuse=True)
                        holder.append(w3)
                        for key in sorted(w3.shadow):
                            if key[0] == "smX":
                                continue
                            if not w3.check_scenario(key, "files read again by a second bptk()"):
                                break
                        for v in r3.violations:
                            res.violate("C07.scenario-differs-from-fresh-model", dict(v.detail, clause=v.clause, reader="a second bptk() on the unchanged files"))
                    if not res.violations and m.get("base_constants") and not cfg.get("xmile"):
                        # a base constant is edited in the scenario FILE and one scenario that inherits it is reloaded
                        # (bptk.reset_scenario): the reloaded scenario runs with what the file says now
                        inherits = [sn for sn, sd in m["scenarios"].items() if any(c_ not in (sd.get("constants") or {}) for c_ in m["base_constants"])]
                        if inherits:
                            sn = sorted(inherits)[0]
                            cname = sorted(c_ for c_ in m["base_constants"] if c_ not in (m["scenarios"][sn].get("constants") or {}))[0]
                            newv = 6.5
                            sdir = os.path.join(workdir, "scenarios")
                            edited = False
                            # (the twins of the history wrote and removed files of their own in this directory: the files are
                            #  written afresh, as they were, before one of them is edited)
                            class _W:
                                pass
                            w5 = _W()
                            w5._cleanup = write_files(cfg, workdir)
                            holder.append(w5)
                            import importlib
                            importlib.invalidate_caches()
                            for fn in sorted(os.listdir(sdir)):
                                if not fn.endswith(".json"):
                                    continue
                                with open(os.path.join(sdir, fn)) as f:
                                    doc = json.load(f)
                                blk = doc.get(m["name"])
                                if isinstance(blk, dict) and cname in (blk.get("base_constants") or {}):
                                    blk["base_constants"][cname] = newv
                                    with open(os.path.join(sdir, fn), "w") as f:
                                        json.dump(doc, f)
                                    edited = True
                            if edited:
                                res.probe("base_value_edited_in_the_file_and_scenario_reloaded")
                                try:
                                    w.bptk.reset_scenario(scenario_manager=m["name"], scenario=sn)
                                    key = (m["name"], sn)
                                    sh = copy.deepcopy(w.reg_shadow[key])
                                    sh["constants"][cname] = newv
                                    w.shadow[key] = sh
                                    r4 = RunResult()
                                    w_res, w.res = w.res, r4
                                    try:
                                        w.check_scenario(key, "base value edited in the file, scenario reloaded")
                                    finally:
                                        w.res = w_res
                                    for v in r4.violations:
                                        res.violate("C07.scenario-differs-from-fresh-model", dict(v.detail, clause=v.clause, after="bptk.reset_scenario on an edited file"))
                                except Exception as e:
                                    res.violate("C07.operation-raised", {"op": "reset_scenario after a file edit", "exception": type(e).__name__, "message": str(e)[:120]})
                    for w2 in holder:
                        cleanup_files(w2)
            finally:
                if w is not None:
                    cleanup_files(w)
    # non-trivial: some scenario carries a value that differs from the model's own
    res.nontrivial = any(sd for sd in m["scenarios"].values()) or bool(m.get("base_constants")) or bool(case["ops"])
    res.digest = log.digest()
    return res


def shrink(case):
    for cand in shrink_list(case["ops"]):
        c = copy.deepcopy(case)
        c["ops"] = copy.deepcopy(cand)
        yield c
    cfg = case["config"]
    if cfg.get("xmile"):
        c = copy.deepcopy(case)
        c["config"].pop("xmile")
        c["ops"] = [o for o in c["ops"] if "smX" not in o.get("managers", []) and o.get("manager") != "smX"]
        yield c
    if cfg.get("split"):
        c = copy.deepcopy(case)
        c["config"]["split"] = False
        yield c
    if cfg["channel"] == "files" and not cfg.get("xmile"):
        c = copy.deepcopy(case)
        c["config"]["channel"] = "dict"
        yield c
    m = cfg["managers"][0]
    for key in ("base_constants", "base_points"):
        if m.get(key):
            c = copy.deepcopy(case)
            c["config"]["managers"][0].pop(key)
            yield c
    for sname, sd in m["scenarios"].items():
        used = any(sname in o.get("scenarios", []) or o.get("scenario") == sname for o in case["ops"])
        if sname != "plain" and not used and len(m["scenarios"]) > 1:
            c = copy.deepcopy(case)
            c["config"]["managers"][0]["scenarios"].pop(sname)
            yield c
        for part in list(sd):
            c = copy.deepcopy(case)
            c["config"]["managers"][0]["scenarios"][sname].pop(part)
            yield c
    if cfg["bases"][0].get("constants"):
        c = copy.deepcopy(case)
        c["config"]["bases"][0].pop("constants")
        yield c


def trigger(case, v, f):
    t = f["trigger"]["kind"]
    cfg = case["config"]
    if t == "runspecs_in_scenario_file":
        return cfg["channel"] == "files" and any("runspecs" in sd for sd in cfg["managers"][0]["scenarios"].values())
    return False


def neutralise(case, v, f):
    t = f["trigger"]["kind"]
    if t == "runspecs_in_scenario_file":
        c = copy.deepcopy(case)
        c["config"]["channel"] = "dict"
        c["config"].pop("xmile", None)
        c["ops"] = [o for o in c["ops"] if "smX" not in o.get("managers", []) and o.get("manager") != "smX"]
        return c
    return None
