"""C14  Agent registry stays consistent under creation, deletion and reconfiguration.

History over create_agent(s), delete_agent(s) (existing, already deleted, never existing ids),
configure_agents, reset and state changes on the real Model.  After every operation all
queries are compared with a shadow registry.  The quick tier also enumerates ALL histories of
length <= 5 over an alphabet of 7 concrete operations (7^5 + ... + 7 = 19 607).
"""
import copy
import hashlib
import itertools
import random

from sim.core import EventLog, RunResult, derive_seed
from checks.common import shrink_list

PROPERTY = "C14"
LEVEL = "exploration"
SIM_UNIT = "registry operations"
CHUNK = 8
RULE = ("a run = one operation history over create_agent / create_agents / delete_agent / delete_agents (live, already "
        "deleted, never existing ids) / configure_agents / reset / state change, with every query compared with a shadow "
        "registry after every operation; the enumerated part covers all 19 607 histories of length <= 5 over 7 concrete "
        "operations (thorough: also all 117 649 of length 6), the sampled part histories of 3-40 operations over 2 agent types and <= 10 live agents; non-trivial = "
        "the history contains a deletion, reconfiguration or reset followed by at least one more operation or query "
        "round; distinct = distinct event-log digest")
REAL = ["BPTK_Py.modeling.model.Model (create_agent(s), delete_agent(s), configure_agents, reset, agent, agent_ids, agent_count, "
        "agent_count_per_state, next_agent, random_agents)", "BPTK_Py.modeling.agent.Agent", "BPTK_Py.modeling.dataCollector"]
STUB = ["random.random() (seeded per run; random_agents draws from it)"]
ASSUMPTIONS = ["purely sequential histories: the simulator contributes the operation history (creation = node join, deletion = node crash, "
               "configure_agents/reset = cluster restart keeping the id counter), no schedule or clock is involved",
               "the enumeration is complete for the stated alphabet and length bound only"]
FAULT_KINDS = ["agent_deletion", "reconfiguration", "failed_reconfiguration", "reset"]
PROBES = ["creation_inside_reset_cache_callback", "callback_failed_inside_reset_cache", "nested_creation", "failed_reconfiguration", "query_after_deletion", "count_per_state_after_deletion", "delete_nonexistent_id", "two_types_interleaved_ids",
          "configure_after_deletion"]
EXHAUSTIVE = {"quick": False, "thorough": False}

ALPHABET = ["A", "B", "C", "D", "E", "F", "G"]
STATES = ["idle", "busy", "done", "unbusy"]       # (a state's name may contain another state's name: they are different states)


def concrete(sym, shadow):
    live = list(shadow["live"])
    if sym == "A":
        return {"op": "create", "type": "a"}
    if sym == "B":
        return {"op": "create", "type": "b"}
    if sym == "C":
        return {"op": "delete", "id": live[0] if live else 0}
    if sym == "D":
        return {"op": "delete", "id": 1}
    if sym == "E":
        # (both entry points of a reconfiguration take turns: configure_agents(spec) and Model.configure(config))
        return dict({"op": "configure", "spec": [["a", 1], ["b", 1]]}, **({"via": "model"} if len(shadow.get("ever", ())) % 2 else {}))
    if sym == "F":
        return {"op": "reset"}
    if sym == "G":
        return {"op": "set_state", "id": live[-1] if live else 0, "state": "busy"}
    raise ValueError(sym)


def plan(tier, verif_seed):
    i = 0
    # enumerated part: one spec per 2-symbol prefix block (49 blocks) + the short histories
    yield {"i": i, "kind": "enum_short", "keep_sample": True}
    i += 1
    for a in ALPHABET:
        for b in ALPHABET:
            yield {"i": i, "kind": "enum_block", "prefix": a + b}
            i += 1
    if tier == "thorough":
        # all 117 649 histories of length 6 as well
        for a in ALPHABET:
            for b in ALPHABET:
                for c in ALPHABET:
                    yield {"i": i, "kind": "enum_block6", "prefix": a + b + c}
                    i += 1
    n = 3000 if tier == "quick" else 10**9
    for j in range(n):
        yield {"i": i, "kind": "random", "seed": derive_seed(verif_seed, PROPERTY, j), "keep_sample": j < 1}
        i += 1


def generate(spec):
    if spec["kind"] == "enum_short":
        hs = [""] + ["".join(p) for L in (1, 2) for p in itertools.product(ALPHABET, repeat=L)]
        return {"property": PROPERTY, "kind": "enum", "histories": hs}
    if spec["kind"] == "enum_block":
        hs = [spec["prefix"] + "".join(p) for L in (1, 2, 3) for p in itertools.product(ALPHABET, repeat=L)]
        return {"property": PROPERTY, "kind": "enum", "histories": hs}
    if spec["kind"] == "enum_block6":
        hs = [spec["prefix"] + "".join(p) for p in itertools.product(ALPHABET, repeat=3)]
        return {"property": PROPERTY, "kind": "enum", "histories": hs}
    rng = random.Random(spec["seed"])
    ops = []
    n_live_est = 0
    next_id = 0
    for _ in range(rng.randint(3, 40)):
        r = rng.random()
        if r < 0.05 and n_live_est < 8:
            ops.append({"op": "create", "type": "team"})
            n_live_est += 3
            next_id += 3
        elif r < 0.30 and n_live_est < 10:
            ops.append({"op": "create", "type": rng.choice(["a", "b", "a", "b", "cap"])})
            n_live_est += 1
            next_id += 1
        elif r < 0.38 and n_live_est < 8:
            c = rng.choice([2, 3])
            ops.append({"op": "create_many", "type": rng.choice(["a", "b", "cap"]), "count": c})
            n_live_est += c
            next_id += c
        elif r < 0.58:
            ops.append({"op": "delete", "id": rng.randrange(0, max(1, next_id + 2))})
            n_live_est = max(0, n_live_est - 1)
        elif r < 0.60:
            ops.append({"op": "delete_then_touch", "id": rng.randrange(0, max(1, next_id + 1)), "state": rng.choice(STATES)})
            n_live_est = max(0, n_live_est - 1)
        elif r < 0.63:
            ops.append({"op": "delete_many", "ids": sorted({rng.randrange(0, max(1, next_id + 2)) for _ in range(rng.choice([2, 3]))}),
                        "as": rng.choice(["list", "list", "tuple", "set", "frozenset", "keys", "range"])})
            if ops[-1]["as"] == "range":
                lo_ = rng.randrange(0, max(1, next_id + 1))
                ops[-1]["ids"] = list(range(lo_, lo_ + rng.choice([2, 3])))       # (a range is contiguous)
            n_live_est = max(0, n_live_est - 2)
        elif r < 0.66:
            ops.append({"op": rng.choice(["delete_type", "delete_each_of_type"]), "type": rng.choice(["a", "b"])})
            n_live_est = max(0, n_live_est - 2)
        elif r < 0.74:
            spec_ = [[t, rng.choice([0, 1, 2, 3])] for t in rng.sample(["a", "b", "cap"], rng.choice([1, 2]))]
            ops.append({"op": "configure", "spec": spec_})
            if rng.random() < 0.4:
                ops[-1]["via"] = "model"        # Model.configure(config) instead of configure_agents(spec)
            n_live_est = sum(c for _, c in spec_)
            next_id += n_live_est
        elif r < 0.77:
            ops.append({"op": "reset"})
            n_live_est = 0
        elif r < 0.80:
            good = [[t, rng.choice([1, 2])] for t in rng.sample(["a", "b"], rng.choice([0, 1, 2]))]
            pos = rng.randrange(len(good) + 1)
            ops.append({"op": "configure_bad", "spec": good[:pos] + [["ghost", 1]] + good[pos:]})
            n_live_est = 3
            next_id += 4
        elif r < 0.84:
            # the agents' reset_cache() callback: a one-shot behaviour for one agent (creates another agent / fails), fired
            # by a later Model.reset_cache() - never by reset(), which discards the agents
            if rng.random() < 0.7:
                ops.append({"op": "hook", "id": rng.randrange(0, max(1, next_id)), "do": "create", "type": rng.choice(["a", "b"])})
            else:
                ops.append({"op": "hook", "id": rng.randrange(0, max(1, next_id)), "do": "raise"})
        elif r < 0.87:
            ops.append({"op": "reset_cache"})
        else:
            ops.append({"op": "set_state", "id": rng.randrange(0, max(1, next_id + 1)), "state": rng.choice(STATES)})
    return {"property": PROPERTY, "kind": "ops", "ops": ops, "seed": spec["seed"] % (2**32)}


# ------------------------------------------------------------------ shadow registry + comparison

def shadow_new():
    return {"live": {}, "next": 0, "ever": set()}        # live: id -> [type, state], insertion ordered


def shadow_apply(sh, op):
    k = op["op"]
    if k == "create" and op["type"] == "team":
        # the team's id is taken first, its members are created (and registered) while it initialises,
        # the team itself is registered last
        tid = sh["next"]
        sh["ever"].add(tid)
        sh["next"] += 1
        for _ in range(2):
            shadow_apply(sh, {"op": "create", "type": "a"})
        sh["live"][tid] = ["team", "idle"]
    elif k == "create" and op["type"] == "cap":
        # the newcomer's id is taken, it removes the oldest of its kind while it initialises (if the population is full),
        # then it is registered
        nid = sh["next"]
        sh["ever"].add(nid)
        sh["next"] += 1
        caps = [i for i, (t, s_) in sh["live"].items() if t == "cap"]
        if len(caps) >= 2:
            sh["live"].pop(caps[0])
        sh["live"][nid] = ["cap", "idle"]
    elif k == "create":
        sh["live"][sh["next"]] = [op["type"], "idle"]
        sh["ever"].add(sh["next"])
        sh["next"] += 1
    elif k == "create_many":
        for _ in range(op["count"]):
            shadow_apply(sh, {"op": "create", "type": op["type"]})
    elif k == "delete":
        sh["live"].pop(op["id"], None)
    elif k == "delete_then_touch":
        sh["live"].pop(op["id"], None)
    elif k == "delete_many":
        for i in op["ids"]:
            sh["live"].pop(i, None)
    elif k in ("delete_type", "delete_each_of_type"):
        for i in [i for i, (t, s_) in sh["live"].items() if t == op["type"]]:
            sh["live"].pop(i, None)
    elif k == "configure":
        sh["live"].clear()
        for t, c in op["spec"]:
            for _ in range(c):
                shadow_apply(sh, {"op": "create", "type": t})
    elif k == "reset":
        sh["live"].clear()
    elif k == "set_state":
        if op["id"] in sh["live"]:
            sh["live"][op["id"]][1] = op["state"]
    elif k == "hook":
        sh.setdefault("hooks", {})[op["id"]] = {x: y for x, y in op.items() if x not in ("op", "id")}
    elif k == "reset_cache":
        # Model.reset_cache() gives every live agent its reset_cache() callback, in creation order (a newcomer created by a
        # callback is live, so it gets its own); a callback that raises ends the walk.  (reset() discards the agents: no callbacks)
        done = set()
        hooks = sh.setdefault("hooks", {})
        sh["raised"] = False
        while True:
            todo = [i for i in sh["live"] if i not in done]
            if not todo:
                break
            i = todo[0]
            done.add(i)
            h = hooks.pop(i, None)
            if h is None:
                continue
            if h["do"] == "create":
                shadow_apply(sh, {"op": "create", "type": h["type"]})
            else:
                sh["raised"] = True
                break


def compare(model, sh, res, where):
    live = sh["live"]

    def q(name, fn):
        try:
            return ("ok", fn())
        except Exception as e:      # queries never fail
            res.violate("C14.query-raised", {"query": name, "exception": type(e).__name__, "where": where,
                                             "live_ids": list(live)})
            return ("exc", None)

    ids = [a.id for a in model.agents]
    if ids != list(live):
        res.violate("C14.live-ids", {"model": ids, "expected": list(live), "where": where})
        return False
    if len(set(ids)) != len(ids):
        res.violate("C14.ids-not-unique", {"model": ids, "where": where})
    if model.next_agent_id != sh["next"]:
        res.violate("C14.id-reused-or-skipped", {"next_agent_id": model.next_agent_id, "expected": sh["next"], "where": where})
    for i in sorted(sh["ever"] | {sh["next"], sh["next"] + 3}):
        st, a = q("agent(%d)" % i, lambda: model.agent(i))
        if st == "ok":
            if i in live and (a is None or a.id != i):
                res.violate("C14.lookup-by-id", {"id": i, "got": None if a is None else a.id, "where": where})
            if i not in live and a is not None:
                res.violate("C14.lookup-by-id", {"id": i, "got": a.id, "expected": None, "where": where})
    for t in ("a", "b", "team", "cap"):
        exp_ids = [i for i, (tt, s) in live.items() if tt == t]
        st, got = q("agent_ids(%s)" % t, lambda: list(model.agent_ids(t)))
        if st == "ok" and got != exp_ids:
            res.violate("C14.ids-per-type", {"type": t, "got": got, "expected": exp_ids, "where": where})
        st, got = q("agent_count(%s)" % t, lambda: model.agent_count(t))
        if st == "ok" and got != len(exp_ids):
            res.violate("C14.count-per-type", {"type": t, "got": got, "expected": len(exp_ids), "where": where})
        for s in STATES:
            exp = sum(1 for i, (tt, ss) in live.items() if tt == t and ss == s)
            st, got = q("agent_count_per_state(%s,%s)" % (t, s), lambda: model.agent_count_per_state(t, s))
            if st == "ok" and got != exp:
                res.violate("C14.count-per-state", {"type": t, "state": s, "got": got, "expected": exp, "where": where,
                                                    "live": {str(k): v for k, v in live.items()}})
            first = next((i for i, (tt, ss) in live.items() if tt == t and ss == s), None)
            st, got = q("next_agent(%s,%s)" % (t, s), lambda: model.next_agent(t, s))
            if st == "ok" and (got.id if got is not None else None) != first:
                res.violate("C14.next-agent", {"type": t, "state": s, "got": None if got is None else got.id, "expected": first, "where": where})
        st, got = q("random_agents(%s,3)" % t, lambda: list(model.random_agents(t, 3)))
        if st == "ok":
            if not set(got) <= set(exp_ids) or len(got) != min(3, len(exp_ids)):
                res.violate("C14.random-agents", {"type": t, "got": got, "live_of_type": exp_ids, "where": where})
    return not res.violations


def run_history(ops_or_syms, res, log, symbolic):
    from models.abm_agents import make_model
    model = make_model(0, 5, 1.0)
    sh = shadow_new()
    destructive = False
    after_destructive = False
    compare(model, sh, res, "initial")
    for n, x in enumerate(ops_or_syms):
        op = concrete(x, sh) if symbolic else x
        log.add("op", n, op)
        if destructive:
            after_destructive = True
        if op["op"] in ("delete", "delete_then_touch", "delete_many", "delete_type", "delete_each_of_type", "configure", "configure_bad", "reset"):
            destructive = True
            res.fault({"delete": "agent_deletion", "delete_then_touch": "agent_deletion", "delete_many": "agent_deletion", "delete_type": "agent_deletion",
                       "delete_each_of_type": "agent_deletion", "configure": "reconfiguration",
                       "configure_bad": "failed_reconfiguration", "reset": "reset"}[op["op"]])
            if op["op"] in ("delete", "delete_many"):
                ids = [op["id"]] if op["op"] == "delete" else op["ids"]
                if any(i not in sh["live"] for i in ids):
                    res.probe("delete_nonexistent_id")
            if op["op"] == "configure" and len(sh["ever"]) > len(sh["live"]):
                res.probe("configure_after_deletion")
        if op["op"] == "create" and op.get("type") == "team":
            res.probe("nested_creation")
        try:
            model.world.apply_op(model, op)
            failed = False
        except Exception as e:
            if op["op"] == "reset_cache":
                # the caller shrugs off a failing callback; the registry is what the callbacks before it left
                shadow_apply(sh, op)
                if not sh.get("raised"):
                    res.violate("C14.operation-raised", {"op": op, "exception": type(e).__name__, "where": n})
                    return destructive
                res.probe("callback_failed_inside_reset_cache")
                if not compare(model, sh, res, n):
                    return destructive
                continue
            if op["op"] != "configure_bad":
                res.violate("C14.operation-raised", {"op": op, "exception": type(e).__name__, "where": n})
                return destructive
            failed = True
        if op["op"] == "reset_cache" and not failed:
            before_ = len(sh["live"])
            shadow_apply(sh, op)
            if sh.get("raised"):
                res.violate("C14.callback-not-called", {"op": op, "where": n})
                return destructive
            if len(sh["live"]) > before_:
                res.probe("creation_inside_reset_cache_callback")
            if not compare(model, sh, res, n):
                return destructive
            continue
        if failed:
            # which population survives a failed reconfiguration is not prescribed (nothing, a part, or the old
            # one after a rollback are all fine): take it from the list of agents, then the queries must agree with it
            res.probe("failed_reconfiguration")
            ids_now = [a.id for a in model.agents]
            if any(i >= model.next_agent_id for i in ids_now) or model.next_agent_id < sh["next"]:
                res.violate("C14.id-reused-or-skipped", {"next_agent_id": model.next_agent_id, "ids": ids_now, "where": n})
            sh["live"] = {a.id: [a.agent_type, a.state] for a in model.agents}
            sh["ever"] |= set(ids_now)
            sh["next"] = model.next_agent_id
        else:
            shadow_apply(sh, op)
        if len(sh["ever"]) > len(sh["live"]) or destructive:
            res.probe("query_after_deletion")
            if any(s != "idle" for _, s in sh["live"].values()) or True:
                res.probe("count_per_state_after_deletion")
        types = [t for t, _ in sh["live"].values()]
        if types and any(types[a] != types[a + 1] for a in range(len(types) - 1)) and len(set(types)) > 1:
            res.probe("two_types_interleaved_ids")
        if not compare(model, sh, res, n):
            return destructive
    res.sim_units += len(ops_or_syms)
    return destructive


def execute(case):
    log = EventLog()
    res = RunResult()
    random.seed(case.get("seed", 12345))
    if case["kind"] == "enum":
        res.sub = []
        for h in case["histories"]:
            sub_log = EventLog()
            r1 = RunResult()
            nt = run_history(h, r1, sub_log, True)
            for v in r1.violations:
                v.detail["history"] = h
                res.violations.append(v)
            for k, n in r1.faults.items():
                res.fault(k, n)
            for k, n in r1.probes.items():
                res.probe(k, n)
            res.sim_units += r1.sim_units
            res.sub.append((hashlib.sha256(h.encode()).hexdigest()[:16] + sub_log.digest()[:16], bool(nt)))
            if res.violations:
                break
        log.add("enum", len(case["histories"]))
        res.nontrivial = True
    else:
        nt = run_history(case["ops"], res, log, False)
        res.nontrivial = bool(nt)
    res.digest = log.digest()
    return res


def shrink(case):
    if case["kind"] == "enum":
        # report the single failing history, then shorten it
        res = execute(case)
        hs = [v.detail.get("history") for v in res.violations if isinstance(v.detail, dict) and "history" in v.detail]
        if hs and len(case["histories"]) > 1:
            yield {"property": PROPERTY, "kind": "enum", "histories": [hs[0]]}
        if len(case["histories"]) == 1:
            h = case["histories"][0]
            for i in range(len(h)):
                yield {"property": PROPERTY, "kind": "enum", "histories": [h[:i] + h[i + 1:]]}
        return
    for cand in shrink_list(case["ops"], min_len=1):
        c = copy.deepcopy(case)
        c["ops"] = copy.deepcopy(cand)
        yield c


def trigger(case, v, f):
    return False


def neutralise(case, v, f):
    return None


def evidence_extra(tier):
    return {"enumerated_completely": "all operation histories of length <= %d over the 7-symbol alphabet %s (in addition to the sampled histories; "
                                     "'exhaustive' stays false because the sampled part is not)" % (6 if tier == "thorough" else 5, ALPHABET)}
