"""C08  Memoised results are never stale or ambiguous.

Two sub-worlds, one per clause of the property.

(a) "edit": a generated history of edits made through the modelling API (equations, stock
    initial values, constants), evaluations, runs through SdSimulation and cache resets on a
    small real Model.  After every operation every element at every grid time must equal the
    same element of a model REBUILT FROM SCRATCH with the latest definitions; a run repeated
    returns the identical frame.

(b) "race": a model whose converter r = fresh() returns a new unique value on every call
    (every written value unique, so every read is attributable to one write), dependants
    a = r + 0, b = r * 1 and a stock s fed by r.  SdSimulation.start runs one worker thread
    per requested equation; the simulator pre-empts them at every source line of model.py
    and sd_simulation.py.  Oracle on the returned frame: a(t) == r(t) == b(t) and
    s(t+dt) - s(t) == dt * r(t): the value reported is the value every dependant consumed.
"""
import copy
import random

from sim.core import EventLog, RunResult, derive_seed
from sim import patches
from sim.threads import Scheduler, make_policy
from checks.common import shrink_list, shrink_sched

PROPERTY = "C08"
LEVEL = "exploration"
SIM_UNIT = "scheduling points"
CHUNK = 40
TRACE = ("modeling/model.py", "sdsimulation/sd_simulation.py")
CRITICAL = ("memoize",)
INTERLEAVING_MEASURE = "distinct sequences of (task, memoize entry) during SdSimulation.start"
RULE = ("a run is either (a) an edit/evaluate/run/reset history of 4-20 operations over an 8-element model (constants, converters, flow, biflow, stocks), checked "
        "after every operation against a model rebuilt from scratch, or (b) one SdSimulation.start over a random "
        "subset/order of [a,b,r,s] with unique-valued r, under a random(p)/pct(d)/single-pre-emption schedule of the "
        "per-equation worker threads; non-trivial = (a) the history contains an edit after a dependent element was "
        "read, (b) at least one pre-emption happened while two workers were alive; distinct = distinct event-log digest")
REAL = ["BPTK_Py.modeling.model.Model (memoize, reset_cache, add_equation)", "BPTK_Py.sddsl (Stock/Flow/Converter/Constant "
        "setters, operators, user functions)", "BPTK_Py.sdsimulation.SdSimulation (per-equation worker threads)",
        "BPTK_Py.scenariomanager.scenario.SimulationScenario.reset_cache", "pandas"]
STUB = ["choice of the running worker thread (baton scheduler, line events in model.py and sd_simulation.py)",
        "stochastic equations are produced by a DSL user function returning a fresh unique value per call instead of random.*"]
ASSUMPTIONS = ["the eval'd equation lambdas and numpy/pandas run atomically between two pre-emption points",
               "double evaluation of an equation is allowed; a second VALUE for one (element, time) is not"]
FAULT_KINDS = ["preemption"]
PROBES = ["user_function_registered_again", "stochastic_expression_as_scenario_constant", "time_step_refined_through_the_scenario", "plot_with_a_step_of_its_own", "agent_callback_reads_elements_during_a_reset", "element_of_an_arrayed_constant_edited", "edits_on_a_registered_scenario_model", "first_equation_after_dependants_were_read", "failed_modelling_call", "scenario_constant_then_scenario_reset", "long_stochastic_run", "edit_landed_inside_a_run", "stochastic_scenario_run_repeatedly", "read_via_memoize", "read_via_call", "read_via_plot", "decimal_dt_race", "edit_after_dependant_read", "initial_value_edit", "preempted_between_check_and_store", "fresh_called_twice_for_one_time",
          "run_repeated", "scenario_reset_cache"]
EXHAUSTIVE = {"quick": False, "thorough": False}

ELEMS = ["k1", "k2", "c1", "c2", "f1", "b1", "s1", "s2", "c3", "c4"]
NTPL = {"c1": 3, "c2": 3, "f1": 3, "b1": 3, "s1": 3, "s2": 3}
INIT_CHOICES = [0.0, 2.0, 100.0, "k1", "k2"]


def _eq(m, name, idx):
    k1, k2 = m.constants["k1"], m.constants["k2"]
    c1, c2 = m.converters["c1"], m.converters["c2"]
    f1 = m.flows["f1"]
    b1 = m.biflows["b1"]
    s1, s2 = m.stocks["s1"], m.stocks["s2"]
    if name == "c1":
        return [k1 * 2.0, k1 + k2, s1 * 0.5][idx]
    if name == "c2":
        return [c1 + 1.0, k2 * 3.0, s2 - k1][idx]
    if name == "f1":
        return [k1 * 1.0, c1 * 1.0, c2 * 0.5][idx]
    if name == "b1":
        return [k2 - c1, c1 * -1.0, k1 - k2][idx]
    if name == "s1":
        return [f1 * 1.0, f1 - c2, f1 + b1][idx]
    if name == "s2":
        return [c1 * 1.0, k2 * 1.0, b1 * 1.0][idx]
    raise ValueError(name)


DEFS0 = {"kv0": 1.0, "kv1": 2.0, "k1": 1.0, "k2": 0.5, "c1": 0, "c2": 0, "f1": 0, "b1": 0, "s1": 0, "s2": 2, "s1_init": 0.0, "s2_init": 2.0}


def build(defs, start, stop, dt):
    from BPTK_Py import Model
    m = Model(starttime=start, stoptime=stop, dt=dt, name="memo")
    for n in ("k1", "k2"):
        m.constant(n)
    for n in ("c1", "c2"):
        m.converter(n)
    m.flow("f1")
    m.biflow("b1")
    for n in ("s1", "s2"):
        m.stock(n)
    m.constants["k1"].equation = float(defs["k1"])
    m.constants["k2"].equation = float(defs["k2"])
    for n in ("c1", "c2", "f1", "b1"):
        if defs[n] is None:
            continue        # declared and used by others, but not defined yet (it evaluates to 0.0 until it gets an equation)
        (m.converters if n.startswith("c") else m.flows if n == "f1" else m.biflows)[n].equation = _eq(m, n, defs[n])
    for n in ("s1", "s2"):
        iv = defs[n + "_init"]
        m.stocks[n].initial_value = m.constants[iv] if isinstance(iv, str) else float(iv)
        m.stocks[n].equation = _eq(m, n, defs[n])
    # c3 depends on k2 only THROUGH the body of a user function (the model handle), not through anything its equation names
    tax_v = defs.get("taxed_v", 1)
    taxed = m.function("taxed", (lambda model, t, x: x * (1.0 + model.evaluate_equation("k2", t))) if tax_v == 1 else
                       (lambda model, t, x: x * (3.0 + model.evaluate_equation("k2", t))))
    m.converter("c3")
    m.converters["c3"].equation = taxed(m.converters["c1"])
    # c4 aggregates an ARRAYED constant: it depends on the vector's elements, which can be edited one by one
    kv = m.constant("kv")
    kv.setup_vector(2, [float(defs.get("kv0", 1.0)), float(defs.get("kv1", 2.0))])
    m.converter("c4")
    m.converters["c4"].equation = kv.arr_sum() + m.constants["k1"]
    return m


def _grid(start, stop, dt):
    out = []
    t = start
    i = 0
    while start + i * dt <= stop + 1e-9:
        out.append(round(start + i * dt, 6))
        i += 1
    return out


# ------------------------------------------------------------------ plan / generate

def plan(tier, verif_seed):
    i = 0
    n_edit = 3200 if tier == "quick" else 10**9
    n_race = 3000 if tier == "quick" else 0
    # directed races: every ordered subset of size >= 2 under the default (serial) schedule
    for _ in range(n_race):
        yield {"i": i, "kind": "race", "seed": derive_seed(verif_seed, PROPERTY, "race", i), "keep_sample": i < 1}
        i += 1
    for j in range(min(n_edit, 3200)):
        yield {"i": i, "kind": "edit", "seed": derive_seed(verif_seed, PROPERTY, "edit", i), "keep_sample": j < 1}
        i += 1
    for j in range(300 if tier == "quick" else 3000):
        yield {"i": i, "kind": "repeat", "seed": derive_seed(verif_seed, PROPERTY, "repeat", i)}
        i += 1
    if tier != "thorough":
        return
    # complete single-pre-emption sweep of the four-equation race
    base = {"i": i, "kind": "race", "seed": derive_seed(verif_seed, PROPERTY, "sweep"), "fixed": ["a", "b", "r", "s"]}
    c0 = generate(base)
    c0["sched"] = {"kind": "default"}
    r0 = execute(c0)
    for k in range(r0.points):
        for tid in (1, 2, 3, 4):
            yield {"i": i, "kind": "race", "seed": base["seed"], "fixed": ["a", "b", "r", "s"], "sweep": [k, tid]}
            i += 1
    while True:
        kind = "race" if i % 3 else "edit"
        yield {"i": i, "kind": kind, "seed": derive_seed(verif_seed, PROPERTY, kind, i)}
        i += 1


def generate(spec):
    rng = random.Random(spec["seed"])
    if spec["kind"] == "race":
        eqs = spec.get("fixed")
        if not eqs:
            eqs = rng.sample(["a", "b", "r", "s"], rng.choice([2, 3, 3, 4, 4]))
        if spec.get("sweep"):
            sched = {"kind": "replay", "preemptions": [spec["sweep"]]}
        else:
            r = rng.random()
            if r < 0.65:
                sched = {"kind": "random", "seed": rng.randrange(2**32), "p": rng.choice([0.02, 0.05, 0.2, 0.4])}
            else:
                sched = {"kind": "pct", "seed": rng.randrange(2**32), "depth": rng.choice([1, 2, 3]), "est": rng.choice([60, 150, 300])}
        dt = rng.choice([1.0, 1.0, 0.5, 0.1, 0.2])
        return {"property": PROPERTY, "kind": "race", "equations": eqs, "steps": rng.choice([1, 2, 3]) if dt >= 0.5 else rng.choice([3, 4, 6]),
                "dt": dt, "sched": sched}
    if spec["kind"] == "repeat":
        # a stochastic model behind bptk scenarios (with and without scenario settings): several runs, no edit in between
        runs = [rng.sample(["s", "r", "a"], rng.randint(1, 3)) for _ in range(rng.randint(2, 4))]
        scen_ = rng.choice(["plain", "boost", "boost", "noisy"])
        if scen_ == "noisy":
            runs = [rng.sample(["s", "r", "a", "k"], rng.randint(2, 4)) for _ in range(rng.randint(2, 4))]
        return {"property": PROPERTY, "kind": "repeat", "scenario": scen_,
                # one in fifteen is a long run (more values than any "reasonable" bound on a memo): nothing is ever forgotten
                "dt": rng.choice([1.0, 0.5]), "steps": rng.choice([2, 3, 4]) if rng.random() > 1 / 15 else rng.choice([530, 700]), "runs": runs,
                "formats": [rng.choice(["df", "dict", "json"]) for _ in runs]}
    # edit history
    start = rng.choice([0.0, 1.0])
    dt = rng.choice([1.0, 0.5, 0.25])
    stop = start + dt * rng.choice([3, 4, 6])
    ops = []
    for _ in range(rng.randint(4, 20)):
        r = rng.random()
        if r < 0.22:
            n = rng.choice(["c1", "c2", "f1", "b1", "s1", "s2"])
            ops.append({"op": "set_equation", "elem": n, "idx": rng.randrange(NTPL[n])})
        elif r < 0.36:
            ops.append({"op": "set_initial", "elem": rng.choice(["s1", "s2"]), "value": rng.choice(INIT_CHOICES)})
        elif r < 0.50:
            # also values that differ from each other by less than any "reasonable" tolerance: a different number is a different number
            ops.append({"op": "set_constant", "elem": rng.choice(["k1", "k2"]),
                        "value": rng.choice([0.0, 0.5, 1.0, 3.0, -2.0, 2e-10, 8e-10, 1000.0, 1000.0000004, 0.5000000000000001])})
        elif r < 0.54:
            ops.append({"op": "set_vector_element", "idx": rng.choice([0, 1]), "value": rng.choice([0.0, 0.5, 3.0, 10.0, -2.0])})
        elif r < 0.72:
            ops.append({"op": "evaluate", "elem": rng.choice(ELEMS), "t_index": rng.randrange(0, 7)})
            if rng.random() < 0.3:
                # (when the history reads through Element.plot) a plot with a step of its own: looking at an element on another
                # grid is an observation, not an edit
                ops[-1]["plot_dt"] = rng.choice([x for x in (2.0, 0.5, 0.25, 0.1) if x != dt])
        elif r < 0.80:
            ops.append({"op": "run", "equations": rng.sample(ELEMS, rng.randint(1, 4))})
        elif r < 0.90:
            # an edit that lands WHILE a run is in flight (its own task, line-level schedule): whatever the run itself
            # returns, afterwards every element evaluates as in a fresh model with the final definitions
            kind = rng.choice(["set_constant", "set_constant", "set_initial", "set_equation"])
            if kind == "set_constant":
                ed = {"op": kind, "elem": rng.choice(["k1", "k2"]), "value": rng.choice([0.0, 0.5, 1.0, 3.0, -2.0])}
            elif kind == "set_initial":
                ed = {"op": kind, "elem": rng.choice(["s1", "s2"]), "value": rng.choice(INIT_CHOICES)}
            else:
                n = rng.choice(["c1", "c2", "f1", "b1", "s1", "s2"])
                ed = {"op": kind, "elem": n, "idx": rng.randrange(NTPL[n])}
            ops.append({"op": "run_with_edit", "equations": rng.sample(ELEMS, rng.randint(1, 3)), "edit": ed,
                        "sched": {"kind": "random", "seed": rng.randrange(2**32), "p": rng.choice([0.02, 0.1, 0.3])}
                        if rng.random() < 0.7 else {"kind": "pct", "seed": rng.randrange(2**32), "depth": rng.choice([1, 2]), "est": rng.choice([100, 300, 800])}})
        elif r < 0.93:
            ops.append({"op": "reset_cache"})
        elif r < 0.96:
            # what bptk does for a scenario whose constant was changed: scenario constant, scenario cache reset, and the
            # runner writing the value into the model (SdSimulation.change_equation) before the next run
            ops.append({"op": "scenario_constant", "elem": rng.choice(["k1", "k2"]), "value": rng.choice([0.0, 0.5, 1.0, 3.0, -2.0])})
        else:
            ops.append({"op": "scenario_reset_cache"})
    if rng.random() < 0.12:
        # the user function behind c3 is registered AGAIN under its name with another body (a notebook cell run again): whether the
        # new body takes effect or the first registration stands is not prescribed - a mixture of the two is excluded
        pos_ = rng.randint(1, len(ops))
        ops.insert(pos_, {"op": "redefine_function"})
        ops.insert(pos_, {"op": "evaluate", "elem": "c3", "t_index": rng.choice([0, 1, 2])})     # (c3 has been read for SOME time before)
    if rng.random() < 0.15:
        # the scenario's time step is refined (or coarsened) somewhere in the history
        ops.insert(rng.randint(1, len(ops)), {"op": "change_dt", "dt": rng.choice([x for x in (1.0, 0.5, 0.25) if x != dt])})
    late = rng.choice([None, None, "c2", "b1"])        # an element that gets its FIRST equation only during the history
    if late and not any(o["op"] == "set_equation" and o["elem"] == late for o in ops):
        ops.insert(rng.randint(1, len(ops)), {"op": "set_equation", "elem": late, "idx": rng.randrange(NTPL[late])})
    if rng.random() < 0.15:
        # a modelling call that FAILS (an arrayed stock set up with integer initial values) and is shrugged off by the caller
        ops.insert(rng.randint(0, len(ops)), {"op": "failed_setup"})
    through_bptk = rng.random() < 0.25
    if through_bptk:
        # the model is registered with bptk, the edits are made on the registered scenario's own model and "run" is
        # bptk.run_scenarios (no scenario settings in play: the scenario's constants stay empty)
        # (the handle of an arrayed element of a scenario's clone is not arrayed: element-wise edits stay with the plain histories)
        ops = [o for o in ops if o["op"] not in ("scenario_constant", "set_vector_element", "change_dt", "redefine_function")]
    return {"property": PROPERTY, "kind": "edit", "start": start, "stop": stop, "dt": dt, "ops": ops, "late": late, "bptk": through_bptk,
            # a hybrid model: an agent whose documented reset_cache() callback reads SD elements (a "soft reset" that re-reads its budget)
            "observer": (not through_bptk) and rng.random() < 0.25,
            # which reading API the history and the oracle use (they differ in which bookkeeping they touch), and whether
            # every element is observed after every operation or only at the end (observation is itself an operation)
            "via": rng.choice(["evaluate_equation", "memoize", "call", "plot"]), "observe": rng.choice(["each", "each", "end"]),
            "sched": {"kind": "random", "seed": rng.randrange(2**32), "p": 0.05}}


# ------------------------------------------------------------------ execute

def execute(case):
    if case["kind"] == "race":
        return _execute_race(case)
    if case["kind"] == "repeat":
        return _execute_repeat(case)
    return _execute_edit(case)


_draws = [0]


def draw():
    """a fresh unique value per call (what a stochastic expression string such as "np.random.uniform(1, 10)" does, deterministically)"""
    _draws[0] += 1
    return 100.0 + _draws[0]


def _execute_repeat(case):
    """'repeating a run returns identical results', and 'whichever set of equations was requested': a stochastic
    model behind bptk scenarios is run several times, with different equation lists, without any edit in between"""
    import json
    import BPTK_Py
    from BPTK_Py import Model
    from worlds.server_world import configure_bptk_globals
    configure_bptk_globals()
    log = EventLog()
    res = RunResult()
    log.add("case", case)
    dt, steps = case["dt"], case["steps"]
    m = Model(starttime=0.0, stoptime=dt * steps, dt=dt, name="rep")
    counter = [0]

    def fresh(model, t):
        counter[0] += 1
        return float(counter[0])
    fn = m.function("fresh", fresh)
    r = m.converter("r")
    a = m.converter("a")
    k = m.constant("k")
    s = m.stock("s")
    k.equation = 1.0
    r.equation = fn()
    a.equation = r * k
    s.initial_value = 0.0
    s.equation = a * 1.0
    kval = {"plain": 1.0, "boost": 2.0, "noisy": None}[case["scenario"]]
    _draws[0] = 0
    with patches.installed(threads="serial"):
        b = BPTK_Py.bptk()
        b.register_scenario_manager({"smR": {"model": m}})
        b.register_scenarios(scenario_manager="smR", scenarios={"plain": {}, "boost": {"constants": {"k": 2.0}},
                                                                 # a scenario constant given as a STOCHASTIC expression string: drawn once per time, like any other value
                                                                 "noisy": {"constants": {"k": "__import__('checks.c08', fromlist=['draw']).draw()"}}})
        if case["scenario"] == "noisy":
            res.probe("stochastic_expression_as_scenario_constant")
        seen = {}       # element -> {t: value} as first reported
        for n, (eqs, fmt) in enumerate(zip(case["runs"], case["formats"])):
            out = b.run_scenarios(scenarios=[case["scenario"]], scenario_managers=["smR"], equations=list(eqs), series_names={}, return_format=fmt)
            if fmt == "json":
                out = json.loads(out)
            for e in eqs:
                try:
                    if fmt == "df":
                        col = {float(t): v for t, v in out[e].to_dict().items()}
                    else:
                        node = out["smR"][case["scenario"]]["equations"][e]
                        col = {float(t): v for t, v in (node if isinstance(node, dict) else node.to_dict()).items()}
                except Exception as ex:
                    res.violate("C08.a-run-not-repeatable", {"run": n, "equation": e, "exception": type(ex).__name__})
                    col = {}
                if e in seen and col and seen[e] != col:
                    t_bad = sorted(t for t in col if seen[e].get(t) != col[t])[:3]
                    res.violate("C08.a-run-not-repeatable", {"run": n, "equation": e, "scenario": case["scenario"], "times": t_bad,
                                                             "first": [seen[e].get(t) for t in t_bad], "now": [col[t] for t in t_bad]})
                seen.setdefault(e, col)
            if res.violations:
                break
        # the value reported for r / a is the value the stock consumed, whichever run reported it
        if not res.violations and kval is not None:
            grid = [round(i * dt, 6) for i in range(steps + 1)]
            if "a" in seen and "r" in seen:
                for t in grid:
                    if abs(seen["a"][t] - kval * seen["r"][t]) > 1e-9:
                        res.violate("C08.b-two-values-for-one-element-time", {"t": t, "a": seen["a"][t], "k_times_r": kval * seen["r"][t],
                                                                              "scenario": case["scenario"], "runs": case["runs"]})
                        break
            src = "a" if "a" in seen else ("r" if "r" in seen else None)
            if "s" in seen and src and not res.violations:
                f = 1.0 if src == "a" else kval
                for i in range(steps):
                    inc = seen["s"][grid[i + 1]] - seen["s"][grid[i]]
                    if abs(inc - dt * f * seen[src][grid[i]]) > 1e-9:
                        res.violate("C08.b-two-values-for-one-element-time", {"t": grid[i], "stock_increment": inc, "expected": dt * f * seen[src][grid[i]],
                                                                              "scenario": case["scenario"], "runs": case["runs"]})
                        break
        try:
            b.destroy()
        except Exception:
            pass
    res.probe("stochastic_scenario_run_repeatedly")
    if steps > 512:
        res.probe("long_stochastic_run")
    res.sim_units = len(case["runs"])
    res.nontrivial = len(case["runs"]) >= 2
    res.digest = log.digest()
    return res


def _execute_race(case):
    from BPTK_Py import Model
    from BPTK_Py.sdsimulation import SdSimulation
    log = EventLog()
    res = RunResult()
    dt = case["dt"]
    steps = case["steps"]
    m = Model(starttime=0.0, stoptime=dt * steps, dt=dt, name="race")
    counter = [0]
    calls = []

    def fresh(model, t):
        counter[0] += 1
        calls.append((t, counter[0]))
        return float(counter[0])
    fn = m.function("fresh", fresh)
    r = m.converter("r")
    a = m.converter("a")
    b = m.converter("b")
    s = m.stock("s")
    r.equation = fn()
    a.equation = r + 0.0
    b.equation = r * 1.0
    s.initial_value = 0.0
    s.equation = r * 1.0
    eqs = case["equations"]
    with patches.installed(threads="sched"):
        sim = SdSimulation(model=m, name="race")
        pol = make_policy(case.get("sched") or {"kind": "default"})
        sched = Scheduler(pol, TRACE, log=log, critical_funcs=CRITICAL)
        with sched:
            frame = sim.start(output=["frame"], equations=list(eqs))
    res.points = sched.points
    res.sim_units = sched.points
    res.sched = {"kind": "replay", "preemptions": sched.taken}
    res.interleaving = sched.interleaving_hash()
    if dt in (0.1, 0.2):
        res.probe("decimal_dt_race")
    line_switches = [e for e in log.of_kind("switch") if e[4] not in ("block", "finish", "deadlock")]
    if line_switches:
        res.fault("preemption", len(line_switches))
        if any("memoize" in e[4] for e in line_switches):
            res.probe("preempted_between_check_and_store")
    res.nontrivial = bool(line_switches)
    per_t = {}
    for t, v in calls:
        per_t.setdefault(t, []).append(v)
    if any(len(v) > 1 for v in per_t.values()):
        res.probe("fresh_called_twice_for_one_time")
    for te in sched.thread_excs:
        res.violate("C08.b-worker-died", {"thread": te[0], "exception": te[1]})
    cols = {c: frame[c].to_dict() for c in frame.columns} if frame is not None else {}
    log.add("frame", {c: {repr(t): v for t, v in col.items()} for c, col in cols.items()})
    missing = [e for e in eqs if e not in cols]
    if missing:
        res.violate("C08.b-equation-missing", {"missing": missing})
    grid = [round(i * dt, 6) for i in range(steps + 1)]
    for t in grid:
        vals = {e: cols[e].get(t) for e in ("a", "b", "r") if e in cols}
        if len({v for v in vals.values()}) > 1:
            res.violate("C08.b-two-values-for-one-element-time", {"t": t, "values": vals, "requested": eqs})
            break
    if "s" in cols and "r" in cols:
        for i in range(steps):
            t0, t1 = grid[i], grid[i + 1]
            if cols["s"].get(t1) is None or cols["s"].get(t0) is None:
                continue
            if abs((cols["s"][t1] - cols["s"][t0]) - dt * cols["r"][t0]) > 1e-9 * max(1.0, abs(cols["s"][t1])):
                res.violate("C08.b-two-values-for-one-element-time", {"t": t0, "stock_increment": cols["s"][t1] - cols["s"][t0],
                                                                      "dt_times_r": dt * cols["r"][t0], "requested": eqs})
                break
    res.digest = log.digest()
    return res


def _execute_edit(case):
    from BPTK_Py.sdsimulation import SdSimulation
    from BPTK_Py.scenariomanager.scenario import SimulationScenario
    log = EventLog()
    res = RunResult()
    start, stop, dt = case["start"], case["stop"], case["dt"]
    grid = _grid(start, stop, dt)
    rs = {"dt": dt, "grid": grid}       # (the run spec in force: a scenario may refine its dt during the history)
    defs = dict(DEFS0)
    if case.get("late"):
        defs[case["late"]] = None
        res.probe("first_equation_after_dependants_were_read")
    live = build(defs, start, stop, dt)
    b = None
    if case.get("bptk") and not any(o["op"] in ("scenario_constant", "set_vector_element", "change_dt", "redefine_function") for o in case["ops"]):
        import BPTK_Py
        from worlds.server_world import configure_bptk_globals
        configure_bptk_globals()
        res.probe("edits_on_a_registered_scenario_model")
        b = BPTK_Py.bptk()
        b.register_model(live, scenario_manager="smMemo")
        b.register_scenarios(scenario_manager="smMemo", scenarios={"s": {}})
        scen = b.get_scenario("smMemo", "s")
        live = scen.model
    else:
        scen = SimulationScenario(dictionary={}, name="s", model=live, scenario_manager_name="m")
    if case.get("observer") and b is None:
        from BPTK_Py import Agent
        res.probe("agent_callback_reads_elements_during_a_reset")

        class Observer(Agent):
            def initialize(self):
                self.state = "watching"

            def reset_cache(self):
                for n_ in ("c2", "s1", "c3", "c4", "s2"):
                    for t_ in rs["grid"][:3]:
                        try:
                            self.model.evaluate_equation(n_, t_)
                        except Exception:
                            pass
        live.register_agent_factory("observer", lambda agent_id, model, properties: Observer(agent_id, model, properties, "observer"))
        live.create_agent("observer", {})
    read_since_edit = set()
    pol = make_policy(case.get("sched") or {"kind": "default"})

    def elem(m, n):
        for d in (m.constants, m.converters, m.flows, m.biflows, m.stocks):
            if n in d:
                return d[n]
        raise KeyError(n)

    def run(m, eqs):
        with patches.installed(threads="sched"):
            s = Scheduler(pol, TRACE, log=None)
            if b is not None and m is live:
                with s:
                    out = b.run_scenarios(scenarios=["s"], scenario_managers=["smMemo"], equations=list(eqs), return_format="dict")
                res.points += s.points
                return {c: {repr(float(t)): v for t, v in col.items()} for c, col in out["smMemo"]["s"]["equations"].items()}
            sim = SdSimulation(model=m, name="edit")
            with s:
                fr = sim.start(output=["frame"], equations=list(eqs))
            res.points += s.points
        return {c: {repr(float(t)): v for t, v in fr[c].to_dict().items()} for c in fr.columns}

    via = case.get("via", "evaluate_equation")
    res.probe("read_via_" + via)

    def read(m, n, t):
        if via == "memoize" or via == "plot":
            return m.memoize(n, t)
        if via == "call":
            return elem(m, n)(t)
        return m.evaluate_equation(n, t)

    def compare(n_op, op):
        fresh = build(defs, start, stop, rs["dt"])
        if redefined[0]:
            # either reading of "registered again" is fine, as long as it is ONE of them for every time
            alt = build(dict(defs, taxed_v=2), start, stop, rs["dt"])
            try:
                probe_ = [(read(live, "c3", t), fresh.evaluate_equation("c3", t), alt.evaluate_equation("c3", t)) for t in rs["grid"]]
            except Exception:
                probe_ = []
            if probe_ and all(a == c or (a != a and c != c) for a, _, c in probe_) and not all(a == b_ for a, b_, _ in probe_):
                fresh = alt
        for n in ELEMS:
            for t in rs["grid"]:
                try:
                    lv = read(live, n, t)
                except Exception as e:
                    lv = "exc:" + type(e).__name__
                try:
                    fv = fresh.evaluate_equation(n, t)
                except Exception as e:
                    fv = "exc:" + type(e).__name__
                if lv != fv and not (lv != lv and fv != fv):
                    res.violate("C08.a-stale-after-edit", {"op_index": n_op, "op": op, "element": n, "t": t, "live": lv, "fresh": fv,
                                                           "last_edit": last_edit[0]})
                    return False
        return True

    def apply_edit(op):
        kind = op["op"]
        if kind == "set_equation":
            elem(live, op["elem"]).equation = _eq(live, op["elem"], op["idx"])
        elif kind == "set_initial":
            v = op["value"]
            live.stocks[op["elem"]].initial_value = live.constants[v] if isinstance(v, str) else float(v)
        else:
            live.constants[op["elem"]].equation = float(op["value"])

    last_edit = [None]
    redefined = [False]
    for n_op, op in enumerate(case["ops"]):
        log.add("op", n_op, op)
        kind = op["op"]
        if kind == "run_with_edit":
            from sim.threads import run_tasks
            ed = op["edit"]
            if ed["op"] == "set_equation":
                defs[ed["elem"]] = ed["idx"]
            elif ed["op"] == "set_initial":
                defs[ed["elem"] + "_init"] = ed["value"]
            else:
                defs[ed["elem"]] = ed["value"]
            last_edit[0] = ed
            with patches.installed(threads="sched"):
                sim = SdSimulation(model=live, name="edit")
                s2 = Scheduler(make_policy(op["sched"]), TRACE, log=None)
                with s2:
                    def editor():
                        # the edit is ONE operation (the property speaks of interleavings of edit and evaluate operations,
                        # at line granularity only for the workers of a run): indivisible, but it lands at an arbitrary
                        # line of the run in flight
                        s2.atomic_tid = s2.current.tid
                        try:
                            apply_edit(ed)
                        finally:
                            s2.atomic_tid = None
                    out = run_tasks(s2, [lambda: sim.start(output=["frame"], equations=list(op["equations"])), editor])
                res.points += s2.points
            log.add("run_with_edit", [o[0] for o in out], s2.interleaving_hash())
            if out[1][0] != "ok":
                # the edit itself must go through; the run it overtook may legitimately see a half-edited model
                res.violate("C08.a-edit-raised", {"op_index": n_op, "op": op, "exception": "%s: %s" % (type(out[1][1]).__name__, out[1][1])})
            if out[0][0] != "ok":
                res.probe("overtaken_run_raised")
            if s2.taken:
                res.probe("edit_landed_inside_a_run")
                res.fault("preemption", len(s2.taken))
            read_since_edit |= set(op["equations"])
        elif kind == "set_equation":
            if read_since_edit:
                res.probe("edit_after_dependant_read")
            defs[op["elem"]] = op["idx"]
            elem(live, op["elem"]).equation = _eq(live, op["elem"], op["idx"])
            last_edit[0] = op
        elif kind == "set_initial":
            if read_since_edit:
                res.probe("edit_after_dependant_read")
            res.probe("initial_value_edit")
            defs[op["elem"] + "_init"] = op["value"]
            v = op["value"]
            live.stocks[op["elem"]].initial_value = live.constants[v] if isinstance(v, str) else float(v)
            last_edit[0] = op
        elif kind == "set_vector_element":
            if read_since_edit:
                res.probe("edit_after_dependant_read")
            res.probe("element_of_an_arrayed_constant_edited")
            defs["kv%d" % op["idx"]] = op["value"]
            live.constants["kv"][op["idx"]] = float(op["value"])
            last_edit[0] = op
        elif kind == "set_constant":
            if read_since_edit:
                res.probe("edit_after_dependant_read")
            defs[op["elem"]] = op["value"]
            live.constants[op["elem"]].equation = float(op["value"])
            last_edit[0] = op
        elif kind == "evaluate":
            t = rs["grid"][op["t_index"] % len(rs["grid"])]
            if via == "plot" and op.get("plot_dt"):
                res.probe("plot_with_a_step_of_its_own")
                elem(live, op["elem"]).plot(dt=op["plot_dt"], return_df=True)
            elif via == "plot":
                elem(live, op["elem"]).plot(return_df=True)
            else:
                read(live, op["elem"], t)
            read_since_edit.add(op["elem"])
        elif kind == "run":
            f1 = run(live, op["equations"])
            f2 = run(live, op["equations"])
            res.probe("run_repeated")
            if f1 != f2:
                res.violate("C08.a-run-not-repeatable", {"op_index": n_op, "equations": op["equations"]})
            fresh = build(defs, start, stop, rs["dt"])
            f3 = run(fresh, op["equations"])
            if f1 != f3 and redefined[0]:
                f3 = run(build(dict(defs, taxed_v=2), start, stop, rs["dt"]), op["equations"])     # (the other reading of "registered again")
            if f1 != f3:
                bad = [c for c in f1 if f1.get(c) != f3.get(c)]
                res.violate("C08.a-stale-after-edit", {"op_index": n_op, "op": op, "columns": bad, "via": "SdSimulation.start",
                                                       "last_edit": last_edit[0]})
            read_since_edit |= set(op["equations"])
        elif kind == "failed_setup":
            res.probe("failed_modelling_call")
            try:
                live.stock("scratch%d" % n_op).setup_vector(2, [1, 2])
                res.violate("C08.a-edit-raised", {"op_index": n_op, "op": op, "exception": "expected ElementError was not raised"})
            except Exception:
                pass
        elif kind == "scenario_constant":
            if read_since_edit:
                res.probe("edit_after_dependant_read")
            res.probe("scenario_constant_then_scenario_reset")
            defs[op["elem"]] = op["value"]
            scen.constants[op["elem"]] = op["value"]
            scen.reset_cache()
            SdSimulation(model=live, name="edit").change_equation(name=op["elem"], value=op["value"])
            last_edit[0] = op
        elif kind == "redefine_function":
            res.probe("user_function_registered_again")
            live.function("taxed", lambda model, t, x: x * (3.0 + model.evaluate_equation("k2", t)))
            redefined[0] = True
            last_edit[0] = op
        elif kind == "change_dt":
            # what bptk does when a scenario's run specs are refined (REST / session settings): the runner writes them into the
            # model (SdSimulation.change_runspecs) and the SCENARIO's cache is reset - no edit through the modelling API
            res.probe("time_step_refined_through_the_scenario")
            SdSimulation(model=live, name="edit").change_runspecs(starttime=start, stoptime=stop, dt=op["dt"])
            scen.reset_cache()
            rs["dt"] = op["dt"]
            rs["grid"] = _grid(start, stop, op["dt"])
            last_edit[0] = op
        elif kind == "reset_cache":
            live.reset_cache()
        elif kind == "scenario_reset_cache":
            res.probe("scenario_reset_cache")
            scen.reset_cache()
        if res.violations:
            break
        if case.get("observe", "each") == "each" or n_op == len(case["ops"]) - 1:
            if not compare(n_op, op):
                break
            read_since_edit |= set(ELEMS)
    res.sim_units = res.points
    res.nontrivial = res.probes.get("edit_after_dependant_read", 0) > 0
    res.digest = log.digest()
    return res


def shrink(case):
    if case["kind"] == "repeat":
        if len(case["runs"]) > 2:
            for j in range(len(case["runs"])):
                c = copy.deepcopy(case)
                c["runs"].pop(j)
                c["formats"].pop(j)
                yield c
        return
    if case["kind"] == "race":
        yield from shrink_sched(case)
        if case["steps"] > 1:
            c = copy.deepcopy(case)
            c["steps"] = 1
            yield c
        if case["dt"] != 1.0:
            c = copy.deepcopy(case)
            c["dt"] = 1.0
            yield c
        return
    for cand in shrink_list(case["ops"], min_len=1):
        c = copy.deepcopy(case)
        c["ops"] = copy.deepcopy(cand)
        yield c
    if case["dt"] != 1.0:
        c = copy.deepcopy(case)
        n = round((case["stop"] - case["start"]) / case["dt"])
        c["dt"] = 1.0
        c["stop"] = case["start"] + n
        yield c


def trigger(case, v, f):
    return False


def neutralise(case, v, f):
    return None
