"""C13  Agent statistics equal the aggregates of the agent population.

Rides on abm-world runs.  (1) Per recorded time: count per (type, state) and total / min /
max / mean of every Integer/Double property equal the aggregates over a snapshot of exactly
those agents, taken by the instrumented model at the end of end_round (exact rationals).
(2) End of run: the dataframe, dict and JSON that bptk.run_scenarios returns for random
selections of agents / states / properties / aggregate types contain these same numbers, with
zero where a state was empty.  There is no fault dimension in this property; the simulator
contributes the population/state history and owns the scenario threads.
"""
import copy
import json
import math
import random
from fractions import Fraction

from sim.core import EventLog, RunResult, derive_seed
from sim import patches
from checks.common import shrink_list
from worlds import abm_world as W

PROPERTY = "C13"
LEVEL = "exploration"
SIM_UNIT = "recorded times"
CHUNK = 12
RULE = ("a run = one ABM scenario history (populations of two types with Double and Integer properties incl. negative, "
        "zero and fractional values, state and property changes over time, agents created/deleted in the round hooks) run "
        "(a) directly, checking every recorded time against the population snapshot, and (b) through bptk.run_scenarios with "
        "a random selection of agents / states / properties / aggregate types in the df, dict and json formats; "
        "non-trivial = at least one recorded time had a group of >= 2 agents whose min, max and mean all differ, or a state "
        "that was empty at some recorded time and populated at another; distinct = distinct event-log digest")
REAL = ["BPTK_Py.modeling.dataCollector.DataCollector.collect_agent_statistics", "BPTK_Py.scenariorunners.hybrid_runner.HybridRunner "
        "(get_df_for_agent, run_scenario: df/dict/json assembly)", "BPTK_Py.bptk.run_scenarios", "BPTK_Py.modeling.simultaneousScheduler",
        "BPTK_Py.scenariomanager.scenario_manager_hybrid", "pandas"]
STUB = ["HybridRunner scenario threads run serially (SerialThread)", "agents/model/collector are harness subclasses that snapshot the population"]
ASSUMPTIONS = ["every agent of a type carries the properties x and n (the property speaks of 'that property over exactly those agents'); a third numeric property y is carried by the agents with odd ids only and is judged for presence, total, minimum and maximum over its carriers, not for its mean",
               "requested states occur at least once during the run (a state that never occurs has no column to compare)"]
FAULT_KINDS = []
PROBES = ["agents_without_properties", "rest_run_repopulates_the_scenario", "two_agent_based_managers_in_one_call", "two_scenarios_in_one_frame", "two_scenarios_with_different_recorded_times", "property_carried_by_some_agents_only", "group_with_distinct_min_max_mean", "state_empty_then_populated", "negative_and_fractional_values", "agents_deleted_mid_run",
          "format_df", "format_dict", "format_json", "negative_stop_time", "two_scenarios_of_a_class_path_manager"]
EXHAUSTIVE = {"quick": False, "thorough": False}
PTYPES = ["total", "min", "max", "mean"]


def plan(tier, verif_seed):
    n = 1600 if tier == "quick" else 10**9
    for i in range(n):
        yield {"i": i, "seed": derive_seed(verif_seed, PROPERTY, i), "keep_sample": i < 1}


def generate(spec):
    rng = random.Random(spec["seed"])
    sc = W.gen_scenario(rng, allow_zero_stop=True)
    # richer populations: the four aggregates should differ
    sc["init"] = [["a", rng.choice([2, 3, 4, 5])], ["b", rng.choice([0, 1, 3])]]
    if rng.random() < 0.3:
        sc["init"].append(["c", rng.choice([1, 2, 3])])       # agents that carry no properties at all: they have a state, they count
    via = rng.choice(["direct", "bptk", "bptk", "bptk_class", "bptk_two_managers", "rest_run"])
    sel = {"agents": rng.sample(["a", "b"], rng.choice([1, 2])),
           "states": rng.sample(W.STATES, rng.choice([1, 2, 3])),
           "properties": rng.sample(["x", "n", "x_2"], rng.choice([0, 1, 2, 3])),
           "types": rng.sample(PTYPES, rng.choice([1, 2, 4]))}
    if not sel["properties"]:
        sel["types"] = []
        if any(t == "c" for t, _ in sc["init"]):
            sel["agents"] = sorted(set(sel["agents"]) | {"c"})      # counts of the property-less agents in df / dict / json
    case = {"property": PROPERTY, "via": via, "scenario": sc, "selection": sel}
    if via == "bptk_two_managers":
        # two agent-based managers, each with a scenario of the same name; one call over both
        sc2 = W.gen_scenario(rng, allow_zero_stop=True, small=True)
        sc2["init"] = [["a", rng.choice([1, 2, 6])], ["b", rng.choice([0, 2])]]
        case["scenario2"] = sc2
    if via == "rest_run":
        # POST /run twice: the second request re-populates the scenario through its settings (only an "agents" block, or one
        # with run specs as well): what it returns describes the NEW population
        case["repopulate"] = {"agents": [["a", rng.choice([1, 2, 5, 6])], ["b", rng.choice([0, 1, 3])]],
                              "runspecs": rng.choice([None, None, {"stoptime": sc["stop"] + 1}])}
    if via == "bptk_class":
        # a second scenario of the same manager, run in the same call
        sc2 = W.gen_scenario(rng, allow_zero_stop=True, small=True)
        sc2["init"] = [["a", rng.choice([1, 2, 6])], ["b", rng.choice([0, 2])]]
        case["scenario2"] = sc2
    return case


def aggregates(snap):
    """{type: {state: {"count": n, prop: {"total","min","max","mean"}}}} in exact rationals"""
    out = {}
    for (aid, typ, state, props) in snap:
        g = out.setdefault(typ, {}).setdefault(state, {"count": 0, "props": {}})
        g["count"] += 1
        for p, v in props.items():
            g["props"].setdefault(p, []).append(Fraction(v))
    res = {}
    for typ, sts in out.items():
        for st, g in sts.items():
            e = {"count": g["count"]}
            for p, vals in g["props"].items():
                e[p] = {"total": sum(vals), "min": min(vals), "max": max(vals), "mean": sum(vals) / len(vals)}
            res.setdefault(typ, {})[st] = e
    return res


def close(a, b):
    a = float(a)
    b = float(b)
    return a == b or abs(a - b) <= 1e-12 * max(1.0, abs(a), abs(b))


def check_stats(res, stats, snaps):
    """clause (1)"""
    rich = False
    for t in sorted(stats):
        if t not in snaps:
            res.violate("C13.1-recorded-time-without-population", {"time": t})
            continue
        exp = aggregates(snaps[t])
        got = stats[t]
        for typ in sorted(set(exp) | set(got)):
            for st in sorted(set(exp.get(typ, {})) | set(got.get(typ, {}))):
                e = exp.get(typ, {}).get(st)
                g = got.get(typ, {}).get(st)
                if e is None or g is None:
                    res.violate("C13.1-group-mismatch", {"time": t, "type": typ, "state": st, "reported": g is not None, "expected": e is not None})
                    return rich
                if g.get("count") != e["count"]:
                    res.violate("C13.1-count", {"time": t, "type": typ, "state": st, "reported": g.get("count"), "expected": e["count"]})
                    return rich
                for p in sorted(k for k in e if k != "count"):
                    if p not in g:
                        res.violate("C13.1-property-missing", {"time": t, "type": typ, "state": st, "property": p})
                        return rich
                    for agg in PTYPES:
                        if p == "y" and agg == "mean":
                            continue    # only some agents carry y: "mean over exactly those agents" is not defined, total/min/max are
                        if agg not in g[p] or g[p][agg] is None or not close(g[p][agg], e[p][agg]):
                            res.violate("C13.1-aggregate", {"time": t, "type": typ, "state": st, "property": p, "aggregate": agg,
                                                            "reported": g[p].get(agg), "expected": float(e[p][agg]), "count": e["count"]})
                            return rich
                    if e["count"] >= 2 and len({e[p]["min"], e[p]["max"], e[p]["mean"]}) == 3:
                        rich = True
                    if p == "y" and len(snaps[t]) and any(typ == a[1] and "y" not in a[3] for a in snaps[t]):
                        res.probe("property_carried_by_some_agents_only")
    return rich


def lookup(stats, t, agent, state, prop=None, ptype=None):
    g = stats.get(t, {}).get(agent, {}).get(state)
    if g is None:
        return 0
    if prop is None:
        return g["count"]
    if prop not in g:
        return 0
    return g[prop][ptype]


def check_outputs(res, b, name, stats, sel, log):
    """clause (2): df / dict / json of run_scenarios carry the numbers of the statistics"""
    times = sorted(stats)
    present_states = {a: {st for t in times for st in stats[t].get(a, {})} for a in sel["agents"]}
    agents = [a for a in sel["agents"] if present_states[a]]
    states = [s for s in sel["states"] if all(s in present_states[a] for a in agents)]
    if not agents or not states:
        return False
    props, types = sel["properties"], sel["types"]
    kw = dict(scenarios=[name], scenario_managers=["smAbm"], agents=list(agents), agent_states=list(states),
              agent_properties=list(props), agent_property_types=list(types))
    compared = False
    for fmt in ("df", "dict", "json"):
        try:
            out = b.run_scenarios(series_names={}, return_format=fmt, **copy.deepcopy(kw))
        except Exception as e:
            res.violate("C13.2-run_scenarios-raised", {"format": fmt, "exception": type(e).__name__, "message": str(e)[:120], "selection": sel})
            return compared
        res.probe("format_" + fmt)
        if out is None:
            res.violate("C13.2-no-output", {"format": fmt, "selection": sel, "times": times[:4]})
            return compared
        if fmt == "json":
            out = json.loads(out)
        for a in agents:
            for st in states:
                combos = [(None, None)] if not props else [(p, ty) for p in props for ty in types]
                for (p, ty) in combos:
                    try:
                        if fmt == "df":
                            col = "smAbm_%s_%s_%s" % (name, a, st) + ("_%s_%s" % (p, ty) if p else "")
                            series = {float(t): v for t, v in out[col].to_dict().items()}
                        else:
                            node = out["smAbm"][name]["agents"][a][st]
                            if p:
                                node = node["properties"][p][ty]
                            series = node if isinstance(node, dict) else node.to_dict()
                            series = {float(t): v for t, v in series.items()}
                    except Exception as e:
                        res.violate("C13.2-series-missing", {"format": fmt, "agent": a, "state": st, "property": p, "aggregate": ty,
                                                             "exception": type(e).__name__, "message": str(e)[:80]})
                        return compared
                    if sorted(series) != [float(t) for t in times]:
                        res.violate("C13.2-times", {"format": fmt, "agent": a, "state": st, "got": sorted(series)[:6], "expected": times[:6],
                                                    "got_len": len(series), "expected_len": len(times)})
                        return compared
                    for t in times:
                        want = lookup(stats, t, a, st, p, ty)
                        got = series[float(t)]
                        compared = True
                        if got is None or (isinstance(got, float) and math.isnan(got)) or not close(got, want):
                            res.violate("C13.2-value", {"format": fmt, "agent": a, "state": st, "property": p, "aggregate": ty, "time": t,
                                                        "returned": got, "statistics": float(want)})
                            return compared
    return compared


def execute(case):
    log = EventLog()
    res = RunResult()
    sc = case["scenario"]
    if sc["stop"] < 0:
        res.probe("negative_stop_time")
    if any(p["op"] == "delete" for p in sc["pop"]):
        res.probe("agents_deleted_mid_run")
    if any(t == "c" and c_ for t, c_ in sc["init"]):
        res.probe("agents_without_properties")
    if case["via"] == "direct":
        m = W.build_direct(sc)
        try:
            m.run()
        except Exception as e:
            res.violate("C13.run-raised", {"exception": type(e).__name__, "message": str(e)[:100]})
            res.digest = log.digest()
            return res
        stats = m.statistics()
        snaps = m.world.snaps
        rich = check_stats(res, stats, snaps)
        compared = True
    elif case["via"] == "rest_run":
        from BPTK_Py.server import BptkServer
        with patches.installed(threads="serial", global_thread=True):
            b, models = W.build_bptk([sc])
            m = models[0]
            app = BptkServer("c13rest", bptk_factory=lambda: b)
            client = app.test_client()
            res.probe("rest_run_repopulates_the_scenario")
            q = {"scenario_managers": ["smAbm"], "scenarios": ["s0"], "agents": ["a", "b"], "agent_states": ["idle"]}
            rich = False
            compared = False

            def series_of(body, typ):
                node = body["smAbm"]["s0"]["agents"][typ]["idle"]
                return {float(t): v for t, v in node.items()}
            r1 = client.post("/run", json=q)
            if r1.status_code != 200:
                res.violate("C13.run-raised", {"request": 1, "status": r1.status_code, "body": r1.get_data(as_text=True)[:120]})
            else:
                stats = m.statistics()
                rich = check_stats(res, stats, m.world.snaps)
                body = r1.get_json()
                for typ in ("a", "b"):
                    if res.violations or not any("idle" in stats[t].get(typ, {}) for t in stats):
                        continue
                    try:
                        ser = series_of(body, typ)
                    except Exception as e:
                        res.violate("C13.2-series-missing", {"format": "json (REST /run)", "agent": typ, "exception": type(e).__name__, "message": str(e)[:80]})
                        break
                    for t in sorted(stats):
                        compared = True
                        want = lookup(stats, t, typ, "idle")
                        if ser.get(float(t)) is None or not close(ser[float(t)], want):
                            res.violate("C13.2-value", {"format": "json (REST /run)", "agent": typ, "time": t, "returned": ser.get(float(t)), "statistics": float(want)})
                            break
            if not res.violations:
                rp = case["repopulate"]
                sett = {"agents": [{"name": t, "count": c} for t, c in rp["agents"]]}
                stop2 = sc["stop"]
                if rp.get("runspecs"):
                    sett["runspecs"] = dict(rp["runspecs"])
                    stop2 = rp["runspecs"]["stoptime"]
                r2 = client.post("/run", json=dict(q, settings={"smAbm": {"s0": sett}}))
                if r2.status_code != 200:
                    res.violate("C13.run-raised", {"request": 2, "status": r2.status_code, "body": r2.get_data(as_text=True)[:120]})
                else:
                    body = r2.get_json()
                    # the script of the first run is used up: the new agents stay idle, every recorded time counts all of them
                    spr = round(1 / sc["dt"])
                    times2 = [r_ + s_ * sc["dt"] for r_ in range(sc["start"], stop2 + 1) for s_ in range(spr)]
                    for typ, cnt in rp["agents"]:
                        if cnt == 0:
                            continue
                        try:
                            ser = series_of(body, typ)
                        except Exception as e:
                            res.violate("C13.2-series-missing", {"format": "json (REST /run after settings.agents)", "agent": typ,
                                                                 "exception": type(e).__name__, "message": str(e)[:80]})
                            break
                        got_times = sorted(ser)
                        if [round(t, 9) for t in got_times] != [round(float(t), 9) for t in times2]:
                            res.violate("C13.2-times", {"format": "json (REST /run after settings.agents)", "agent": typ, "got": got_times[:6], "expected": times2[:6],
                                                        "got_len": len(got_times), "expected_len": len(times2)})
                            break
                        bad = [(t, v) for t, v in sorted(ser.items()) if v != cnt]
                        compared = True
                        if bad:
                            res.violate("C13.2-value", {"format": "json (REST /run after settings.agents)", "agent": typ, "state": "idle", "time": bad[0][0],
                                                        "returned": bad[0][1], "population": cnt, "settings": sett})
                            break
                    if not res.violations:
                        check_stats(res, m.statistics(), m.world.snaps)
            stats = m.statistics()
            snaps = m.world.snaps
            try:
                b.destroy()
            except Exception:
                pass
    elif case["via"] == "bptk_two_managers":
        from checks.c12 import _session_world
        with patches.installed(threads="serial", global_thread=True):
            scs = [sc, case["scenario2"]]
            names = ["smAbm0", "smAbm1"]
            b, models = _session_world(scs, names)
            m = models[0]
            res.probe("two_agent_based_managers_in_one_call")
            rich = False
            compared = False
            outs = {}
            for fmt in ("df", "dict", "json"):
                try:
                    outs[fmt] = b.run_scenarios(scenarios=["s0"], scenario_managers=list(names), agents=["a"], agent_states=["idle"],
                                                series_names={}, return_format=fmt)
                    if fmt == "json":
                        outs[fmt] = json.loads(outs[fmt])
                except Exception as e:
                    res.violate("C13.2-run_scenarios-raised", {"format": fmt, "managers": names, "exception": type(e).__name__, "message": str(e)[:120]})
                    break
            for n, mm in enumerate(models):
                if res.violations:
                    break
                stats_n = mm.statistics()
                rich = check_stats(res, stats_n, mm.world.snaps) or rich
                if res.violations or not any("idle" in stats_n[t].get("a", {}) for t in stats_n):
                    continue
                times_n = [float(t) for t in sorted(stats_n)]
                for fmt, out in outs.items():
                    try:
                        if fmt == "df":
                            series = {float(t): v for t, v in out["%s_s0_a_idle" % names[n]].to_dict().items()}
                        else:
                            node = out[names[n]]["s0"]["agents"]["a"]["idle"]
                            series = {float(t): v for t, v in (node if isinstance(node, dict) else node.to_dict()).items()}
                    except Exception as e:
                        res.violate("C13.2-series-missing", {"format": fmt, "manager": names[n], "managers_in_call": 2,
                                                             "exception": type(e).__name__, "message": str(e)[:80]})
                        break
                    for t in times_n:
                        compared = True
                        want = lookup(stats_n, t, "a", "idle")
                        got = series.get(t)
                        if got is None or not close(got, want):
                            res.violate("C13.2-value", {"format": fmt, "manager": names[n], "managers_in_call": 2, "time": t,
                                                        "returned": got, "statistics": float(want)})
                            break
                    if res.violations:
                        break
            stats = m.statistics()
            snaps = m.world.snaps
            try:
                b.destroy()
            except Exception:
                pass
    else:
        with patches.installed(threads="serial", global_thread=True):
            two = case["via"] == "bptk_class"
            scs = [sc, case["scenario2"]] if two else [sc]
            b, models = W.build_bptk(scs, class_path=two)
            m = models[0]
            first = None
            try:
                first = b.run_scenarios(scenarios=["s%d" % n for n in range(len(scs))], scenario_managers=["smAbm"], agents=["a"],
                                        agent_states=["idle"], series_names={}, return_format="dict")
            except Exception as e:
                res.violate("C13.run-raised", {"exception": type(e).__name__, "message": str(e)[:100]})
            if two:
                res.probe("two_scenarios_of_a_class_path_manager")
            rich = False
            compared = False
            for n, mm in enumerate(models):
                stats = mm.statistics()
                snaps = mm.world.snaps
                before = len(res.violations)
                rich = check_stats(res, stats, snaps) or rich
                for v in res.violations[before:]:
                    v.detail["scenario"] = "s%d" % n
                if not res.violations:
                    compared = check_outputs(res, b, "s%d" % n, stats, case["selection"], log) or compared
                for v in res.violations[before:]:
                    v.detail.setdefault("scenario", "s%d" % n)
                if res.violations:
                    break
            if two and not res.violations:
                # both scenarios in ONE call, one frame over the union of their recorded times: each scenario's columns
                # carry exactly its own times (NaN only where it recorded nothing)
                try:
                    df = b.run_scenarios(scenarios=["s0", "s1"], scenario_managers=["smAbm"], agents=["a"], agent_states=["idle"],
                                         series_names={}, return_format="df")
                except Exception as e:
                    df = None
                    res.violate("C13.2-run_scenarios-raised", {"format": "df", "scenarios": ["s0", "s1"], "exception": type(e).__name__, "message": str(e)[:120]})
                if df is not None:
                    res.probe("two_scenarios_in_one_frame")
                    for n, mm in enumerate(models):
                        stats_n = mm.statistics()
                        col = "smAbm_s%d_a_idle" % n
                        if col not in df.columns:
                            if any("idle" in stats_n[t].get("a", {}) for t in stats_n):
                                res.violate("C13.2-series-missing", {"format": "df", "scenario": "s%d" % n, "column": col, "columns": list(df.columns)[:6]})
                            continue
                        series = {float(t): v for t, v in df[col].to_dict().items()}
                        times_n = [float(t) for t in sorted(stats_n)]
                        # outside its own recorded times a scenario's column is padding (the runner pads with 0, NaN would do too)
                        stray = [t for t, v in series.items() if t not in times_n and not (v == 0 or (isinstance(v, float) and math.isnan(v)))]
                        series = {t: v for t, v in series.items() if t in times_n}
                        if sorted(series) != times_n or stray:
                            res.violate("C13.2-times", {"format": "df", "scenario": "s%d" % n, "scenarios_in_call": 2, "got": sorted(series)[:6],
                                                        "expected": times_n[:6], "got_len": len(series), "expected_len": len(times_n)})
                            break
                        if len(models) > 1 and sorted(models[0].statistics()) != sorted(models[1].statistics()):
                            res.probe("two_scenarios_with_different_recorded_times")
                        for t in times_n:
                            want = lookup(stats_n, t, "a", "idle")
                            if not close(series[t], want):
                                res.violate("C13.2-value", {"format": "df", "scenario": "s%d" % n, "scenarios_in_call": 2, "time": t,
                                                            "returned": series[t], "statistics": float(want)})
                                break
            stats = m.statistics()
            snaps = m.world.snaps
            try:
                b.destroy()
            except Exception:
                pass
    log.add("stats", {repr(t): v for t, v in stats.items()})
    # probes
    if rich:
        res.probe("group_with_distinct_min_max_mean")
    seen = {}
    for t in sorted(stats):
        for typ in ("a", "b"):
            for st in W.STATES:
                present = st in stats[t].get(typ, {})
                if (typ, st) in seen and seen[(typ, st)] != present:
                    res.probe("state_empty_then_populated")
                seen.setdefault((typ, st), present)
    if any(v < 0 for snap in snaps.values() for (_, _, _, props) in snap for v in props.values()) and \
       any(float(v) != int(v) for snap in snaps.values() for (_, _, _, props) in snap for v in props.values()):
        res.probe("negative_and_fractional_values")
    res.sim_units = len(stats)
    res.nontrivial = bool(rich or res.probes.get("state_empty_then_populated")) and compared
    res.digest = log.digest()
    return res


def shrink(case):
    sc = case["scenario"]
    for key in ("pop", "states", "props", "sends", "acts"):
        if sc.get(key):
            for cand in shrink_list(sc[key]):
                c = copy.deepcopy(case)
                c["scenario"][key] = copy.deepcopy(cand)
                yield c
    if sc["stop"] > sc["start"]:
        c = copy.deepcopy(case)
        c["scenario"]["stop"] = sc["stop"] - 1
        spr = round(1 / sc["dt"])
        kmax = (c["scenario"]["stop"] - sc["start"] + 1) * spr
        for key in ("pop", "states", "props", "sends", "acts"):
            c["scenario"][key] = [x for x in c["scenario"].get(key, []) if x["k"] <= kmax]
        yield c
    if sc["dt"] != 1.0:
        c = copy.deepcopy(case)
        c["scenario"]["dt"] = 1.0
        kmax = sc["stop"] - sc["start"] + 1
        for key in ("pop", "states", "props", "sends", "acts"):
            c["scenario"][key] = [x for x in c["scenario"].get(key, []) if x["k"] <= kmax]
        yield c
    sel = case["selection"]
    for key in ("agents", "states", "properties", "types"):
        if len(sel[key]) > 1:
            for j in range(len(sel[key])):
                c = copy.deepcopy(case)
                c["selection"][key].pop(j)
                yield c
    for j, (t, n) in enumerate(sc["init"]):
        if n > 1:
            c = copy.deepcopy(case)
            c["scenario"]["init"][j][1] = n - 1
            yield c


def trigger(case, v, f):
    t = f["trigger"]["kind"]
    sc = case["scenario"]
    if t == "final_time_over_stoptime_below_one":
        return sc["stop"] < 0 and sc["dt"] != 1.0
    return False


def neutralise(case, v, f):
    t = f["trigger"]["kind"]
    if t == "final_time_over_stoptime_below_one":
        c = copy.deepcopy(case)
        shift = 3 - c["scenario"]["start"]
        c["scenario"]["start"] += shift
        c["scenario"]["stop"] += shift
        return c
    return None
