"""C12  An agent-based run executes every step once, in order, for every agent.

The instrumented Model/Agent/DataCollector subclasses log begin_round, handle_events, act,
end_round and collect.  Oracle: the call log of every scenario equals the log GENERATED FROM
ITS RUN SPEC (rounds start..stop, round(1/dt) steps each, time = round + step*dt, live agents
in creation order, one collect per step / only the final one without data collection), and it
is independent of how the per-scenario runner threads of HybridRunner are interleaved.
"""
import copy
import random

from sim.core import EventLog, RunResult, derive_seed, HarnessError
from sim import patches
from sim.threads import Scheduler, make_policy, Deadlock
from checks.common import shrink_list, shrink_sched
from worlds import abm_world as W

PROPERTY = "C12"
LEVEL = "exploration"
SIM_UNIT = "ABM steps"
CHUNK = 20
TRACE = ("modeling/simultaneousScheduler.py", "modeling/model.py", "modeling/dataCollector.py", "modeling/scheduler.py")
CRITICAL = ("run_step", "collect_agent_statistics")
INTERLEAVING_MEASURE = "distinct sequences of (task, function) over entries into run_step / collect_agent_statistics across the scenario threads"
RULE = ("a run = 1-3 ABM scenarios (integer start/stop incl. negative and zero, dt in {1,0.5,0.25,0.2,0.1}, populations "
        "0-8 of two types, create/delete/state changes inside the round hooks, with/without data collection) executed "
        "as a whole Model.run, as externally driven scheduler.run_step / Model.run_step calls, or through "
        "bptk.run_scenarios (2-3, sometimes 5-10 scenarios in one call) whose HybridRunner threads are pre-empted at line granularity; some runs are cancelled from inside (scheduler.running = False in a hook or an act): the step is still completed; non-trivial = the run has "
        ">= 2 steps and (dt != 1 or a population change or >= 2 interleaved scenario threads); distinct = distinct event-log digest")
REAL = ["BPTK_Py.modeling.simultaneousScheduler.SimultaneousScheduler (run, run_step)", "BPTK_Py.modeling.model.Model (run, run_step, registry)",
        "BPTK_Py.modeling.dataCollector.DataCollector", "BPTK_Py.scenariorunners.hybrid_runner.HybridRunner (one thread per scenario)",
        "BPTK_Py.scenariomanager.scenario_manager_hybrid (deep copy per scenario)", "BPTK_Py.bptk.run_scenarios"]
STUB = ["choice of the running scenario thread (baton scheduler, line events in simultaneousScheduler.py/model.py/dataCollector.py/scheduler.py)",
        "agents/model/collector are logging harness subclasses"]
ASSUMPTIONS = ["population changes in the two round hooks, plus deletions from inside act of the acting agent itself or of an agent created before it (both have already acted), and creations from inside act: the newcomer is a live agent and is expected to handle and act last in that very step, as the pinned tree does",
               "harness subclasses (models/abm_agents.py) run atomically between pre-emption points"]
FAULT_KINDS = ["act_raised", "preemption", "population_change_in_hook", "agent_deleted_inside_act"]
PROBES = ["second_session_after_a_complete_one", "run_again_after_a_failed_run", "act_raised_half_way", "run_cancelled_from_inside", "many_scenario_threads", "class_path_manager_under_schedules", "unhandled_event_in_front_of_a_handled_one", "session_over_abm_managers", "session_over_several_abm_managers", "progress_widget", "model_run_again_with_other_run_spec", "deletion_inside_act", "creation_inside_act", "zero_stop_time", "negative_start", "decimal_dt", "empty_population", "collect_off", "threads_interleaved", "driven_steps"]
EXHAUSTIVE = {"quick": False, "thorough": False}


def plan(tier, verif_seed):
    n = 2400 if tier == "quick" else 10**9
    for i in range(n):
        yield {"i": i, "seed": derive_seed(verif_seed, PROPERTY, i), "keep_sample": i < 1}


class _quiet:
    """the progress widget display()s itself: keep that off the check's output"""

    def __enter__(self):
        import io
        import sys
        self._old = sys.stdout
        sys.stdout = io.StringIO()

    def __exit__(self, *a):
        import sys
        sys.stdout = self._old
        return False


def generate(spec):
    rng = random.Random(spec["seed"])
    mode = rng.choice(["run", "run", "run_twice", "scheduler_steps", "model_run_step", "bptk_threads", "bptk_threads", "bptk_session"])
    if mode == "bptk_session":
        # externally driven steps through bptk: one session over one or two agent-based managers that both have a
        # scenario of the same name; bptk.run_step drives every scenario once per step
        scs = []
        stop = rng.choice([1, 2, 3])
        for _ in range(rng.choice([1, 2, 2, 3])):
            sc = W.gen_scenario(rng, small=True)
            sc["start"], sc["stop"], sc["dt"] = 0, stop, 1.0
            for key in ("pop", "states", "props", "sends", "acts"):
                sc[key] = [x for x in sc.get(key, []) if x["k"] <= stop + 1]
            scs.append(sc)
        return {"property": PROPERTY, "mode": mode, "collect": True, "scenarios": scs, "sched": None, "widget": False,
                "second_session": rng.random() < 0.5}
    collect = rng.random() < 0.7
    if mode == "bptk_threads":
        nsc = rng.choice([2, 2, 3])
        if rng.random() < 0.15:
            nsc = rng.choice([5, 6, 9, 10])         # one run_scenarios call over many not-yet-run scenarios: one runner thread each
        scs = [W.gen_scenario(rng, small=True, delayed=rng.random() < 0.6) for _ in range(nsc)]
        collect = True
        r = rng.random()
        if r < 0.6:
            sched = {"kind": "random", "seed": rng.randrange(2**32), "p": rng.choice([0.01, 0.05, 0.2])}
        else:
            sched = {"kind": "pct", "seed": rng.randrange(2**32), "depth": rng.choice([1, 2, 3]), "est": rng.choice([300, 1000, 3000])}
    else:
        scs = [W.gen_scenario(rng)]
        sched = None
        if mode == "model_run_step":
            scs[0]["start"] = 0     # Model.run_step(step) drives round 0 only: time = step*dt
            scs[0]["stop"] = 0
        if mode == "run_twice":
            # the same model and scheduler are run again after run_specs() gave them another run spec
            d2 = rng.choice([d for d in W.DTS if d != scs[0]["dt"]])
            s2 = rng.choice([0, 1, 2])
            scs[0]["second"] = {"start": s2, "stop": s2 + rng.choice([0, 1, 2]), "dt": d2, "collect": rng.random() < 0.5}
    if mode in ("run", "scheduler_steps", "bptk_threads") and rng.random() < 0.15:
        # the run is cancelled from inside (scheduler.running = False in a round hook or in an agent's act): the step in which
        # that happens is still a step - everybody acts, end_round runs, statistics are recorded; a whole run ends after it,
        # externally driven steps are executed as long as the driver asks for them
        sc = rng.choice(scs)
        nsteps = (sc["stop"] - sc["start"] + 1) * round(1 / sc["dt"])
        k = rng.randrange(1, nsteps + 1)
        where = rng.choice(["begin", "end", "act"])
        if where == "act" and sum(c for _, c in sc["init"]) > 0:
            sc["acts"] = list(sc.get("acts", ())) + [{"k": k, "by": rng.randrange(0, sum(c for _, c in sc["init"])), "op": "stop_run"}]
        else:
            sc["pop"] = list(sc["pop"]) + [{"k": k, "where": "begin" if where == "act" else where, "op": "stop_run"}]
    if mode in ("run", "scheduler_steps") and rng.random() < 0.1 and sum(c for _, c in scs[0]["init"]) > 0:
        # an injected fault: one agent's act raises half-way in one step.  Whether the run ends there or carries on is not
        # prescribed - but statistics are recorded for complete steps only
        sc = scs[0]
        nsteps = (sc["stop"] - sc["start"] + 1) * round(1 / sc["dt"])
        sc["acts"] = [a for a in sc.get("acts", ()) if a["op"] != "stop_run"]
        sc["pop"] = [p_ for p_ in sc["pop"] if p_["op"] != "stop_run"]
        sc["acts"].append({"k": rng.randrange(1, nsteps + 1), "by": rng.randrange(0, sum(c for _, c in sc["init"])), "op": "raise"})
        sc["act_fault"] = True
    # with the progress widget (Model.run(show_progress_widget=True) / run_scenarios(progress_bar=True)) a run is the same run
    widget = mode in ("run", "run_twice", "bptk_threads") and rng.random() < 0.3
    return {"property": PROPERTY, "mode": mode, "collect": collect, "scenarios": scs, "sched": sched, "widget": widget,
            "class_path": mode == "bptk_threads" and rng.random() < 0.5}


def _expected(*a, **kw):
    """the oracle's own code runs inside the try that catches what the RUN raises: keep its errors apart"""
    try:
        return W.expected_calls(*a, **kw)
    except Exception as e:
        raise HarnessError("expected_calls failed: %s: %s" % (type(e).__name__, e))


def _cmp(res, name, got, exp, extra):
    if got == exp:
        return True
    n = 0
    while n < len(got) and n < len(exp) and got[n] == exp[n]:
        n += 1
    d = {"scenario": name, "first_difference_at": n, "got": list(got[n:n + 3]), "expected": list(exp[n:n + 3]),
         "got_len": len(got), "expected_len": len(exp)}
    d.update(extra)
    res.violate("C12.call-log-differs", d)
    return False


def _pending_events_clause(res, m, dt, name):
    """"every live agent handles its pending events" in the step: an event that is handled at all is handled in the step after
    it was sent (a delayed one ceil(delay/dt) steps later) - not a step later because something unhandled sat in front of it"""
    import math
    when = {}
    for (k, aid, uid, st) in m.world.handled:
        when.setdefault(uid, k)
    for (ks, uid, to, delay) in m.world.sent:
        if uid not in when:
            continue
        wait = 0 if delay is None else int(math.ceil(round(delay / dt, 9)))
        if when[uid] != ks + 1 + wait:
            res.violate("C12.pending-event-not-handled-in-its-step", {"scenario": name, "uid": uid, "sent_in_step": ks, "delay": delay, "dt": dt,
                                                                    "handled_in_step": when[uid], "expected_step": ks + 1 + wait})
            return False
    if any(u % 1000 == 999 for (_, u, _, _) in m.world.sent):
        res.probe("unhandled_event_in_front_of_a_handled_one")
    return True


def _session_world(scs, names):
    """one bptk with one agent-based manager per scenario (names[n]), each holding a scenario called "s0" """
    import BPTK_Py
    from worlds.server_world import configure_bptk_globals
    from models.abm_agents import make_model
    configure_bptk_globals()
    b = BPTK_Py.bptk()
    models = []
    for n, sc in enumerate(scs):
        base = make_model(0, 1, 1.0, name="base%d" % n)
        sdict = {"s0": {"runspecs": {"starttime": sc["start"], "stoptime": sc["stop"], "dt": sc["dt"]}, "properties": {},
                        "agents": [{"name": t, "count": c} for t, c in sc["init"]]}}
        b.register_scenario_manager({names[n]: {"type": "abm", "model": base, "scenarios": sdict}})
    for n, sc in enumerate(scs):
        m = b.get_scenario(names[n], "s0")
        m.world.calls = []
        m.world.k = 0
        W.load_script(m.world, sc, uid_offset=100000 * (n + 1))
        models.append(m)
    return b, models


def _drive_session(b, names, nmax):
    b.begin_session(scenarios=["s0"], scenario_managers=list(names), agents=["a", "b"], agent_states=["idle"])
    outs = []
    for _ in range(nmax + 3):
        o = b.run_step()
        if o is None or (isinstance(o, dict) and "msg" in o):
            break
        outs.append(o)
    return outs


def _execute_session(case, res, log):
    scs = copy.deepcopy(case["scenarios"])
    stop = min(sc["stop"] for sc in scs)
    for sc in scs:          # one session, one clock: (a shrunk case may carry different stop times)
        sc["start"], sc["stop"], sc["dt"] = 0, stop, 1.0
    names = ["smAbm%d" % n for n in range(len(scs))]
    res.probe("driven_steps")
    res.probe("session_over_abm_managers")
    if len(scs) > 1:
        res.probe("session_over_several_abm_managers")
    with patches.installed(threads="serial", global_thread=True):
        try:
            b, models = _session_world(scs, names)
            outs = _drive_session(b, names, scs[0]["stop"] + 1)
        except Exception as e:
            res.violate("C12.run-raised", {"mode": "bptk_session", "exception": type(e).__name__, "message": str(e)[:100]})
            return
        res.sim_units = len(outs)
        for n, (sc, m) in enumerate(zip(scs, models)):
            calls = list(m.world.calls)
            log.add("calls", n, calls)
            # every step exactly once, in increasing time order: begin-round callbacks carry the time
            times = [c[1] for c in calls if c[0] == "begin"]
            want = [float(t) for t in range(sc["start"], sc["stop"] + 1)]
            if times != want:
                res.violate("C12.call-log-differs", {"scenario": names[n], "mode": "bptk_session", "begin_round_times": times[:8],
                                                     "expected": want[:8], "managers_in_session": len(scs)})
                return
            # and the whole call log is what the same scenario logs in a session of its own
            try:
                b1, ms1 = _session_world([sc], [names[n]])
                _drive_session(b1, [names[n]], sc["stop"] + 1)
            except Exception as e:
                res.violate("C12.run-raised", {"mode": "bptk_session(solo)", "exception": type(e).__name__, "message": str(e)[:100]})
                return
            if not _cmp(res, names[n], calls, list(ms1[0].world.calls), {"mode": "bptk_session", "managers_in_session": len(scs)}):
                return
            try:
                b1.destroy()
            except Exception:
                pass
        if case.get("second_session") and not res.violations:
            # the session is ended and another one is begun on the same scenarios (they have reached their stop time once):
            # it executes every step again - and after its first step statistics exist for that step only
            res.probe("second_session_after_a_complete_one")
            try:
                b.end_session()
                for m in models:
                    w_ = m.world
                    for d_ in (w_.hook_ops, w_.act_ops, w_.state_script, w_.prop_script, w_.sends, w_.hook_sends):
                        d_.clear()
                    w_.calls = []
                b.begin_session(scenarios=["s0"], scenario_managers=list(names), agents=["a", "b"], agent_states=["idle"])
                b.run_step()
                for n, m in enumerate(models):
                    keys = sorted(float(t) for t in m.data_collector.agent_statistics)
                    if keys != [float(scs[n]["start"])]:
                        res.violate("C12.statistics-times", {"scenario": names[n], "mode": "bptk_session (second session, after its first step)",
                                                             "got": keys[:6], "expected": [float(scs[n]["start"])]})
                        break
                for _ in range(scs[0]["stop"] + 3):
                    o = b.run_step()
                    if o is None or (isinstance(o, dict) and "msg" in o):
                        break
            except Exception as e:
                res.violate("C12.run-raised", {"mode": "bptk_session (second session)", "exception": type(e).__name__, "message": str(e)[:100]})
            for n, (sc, m) in enumerate(zip(scs, models)):
                if res.violations:
                    break
                times = [c[1] for c in m.world.calls if c[0] == "begin"]
                want = [float(t) for t in range(sc["start"], sc["stop"] + 1)]
                acts_ = [c[2] for c in m.world.calls if c[0] == "act"]
                n_live = len(m.agents)
                if times != want or (n_live and sorted(set(acts_)) != want):
                    res.violate("C12.call-log-differs", {"scenario": names[n], "mode": "bptk_session (second session)", "begin_round_times": times[:8],
                                                         "expected": want[:8], "acts_at": sorted(set(acts_))[:8]})
        try:
            b.destroy()
        except Exception:
            pass
    res.nontrivial = len(outs) >= 2


def execute(case):
    log = EventLog()
    res = RunResult()
    mode = case["mode"]
    collect = case["collect"]
    widget = bool(case.get("widget"))
    if widget:
        res.probe("progress_widget")
    scs = case["scenarios"]
    for sc in scs:
        if sc["stop"] == 0:
            res.probe("zero_stop_time")
        if sc["start"] < 0:
            res.probe("negative_start")
        if sc["dt"] in (0.1, 0.2):
            res.probe("decimal_dt")
        if sum(c for _, c in sc["init"]) == 0:
            res.probe("empty_population")
        if sc["pop"]:
            res.fault("population_change_in_hook", len(sc["pop"]))
        if sc.get("acts"):
            res.fault("agent_deleted_inside_act", len(sc["acts"]))
            res.probe("deletion_inside_act")
            if any(a["op"] == "create" for a in sc["acts"]):
                res.probe("creation_inside_act")
    if not collect:
        res.probe("collect_off")
    if any(x.get("op") == "stop_run" for sc in scs for x in list(sc["pop"]) + list(sc.get("acts", ()))):
        res.probe("run_cancelled_from_inside")
    if len(scs) >= 5:
        res.probe("many_scenario_threads")
    if mode == "bptk_session":
        _execute_session(case, res, log)
        res.digest = log.digest()
        return res
    if mode != "bptk_threads":
        sc = scs[0]
        m = W.build_direct(sc)
        m.world.calls = []
        spr = round(1 / sc["dt"])
        try:
            if sc.get("act_fault") and mode in ("run", "scheduler_steps"):
                res.probe("act_raised_half_way")
                try:
                    if mode == "run":
                        with _quiet():
                            m.run(show_progress_widget=widget, collect_data=collect)
                    else:
                        for r in range(sc["start"], sc["stop"] + 1):
                            for s in range(spr):
                                try:
                                    m.scheduler.run_step(m, r, s, None, collect)
                                except RuntimeError:
                                    pass        # the driver shrugs the failed step off and drives the next one
                except RuntimeError:
                    pass
                failed = getattr(m.world, "failed_acts", [])
                if failed:
                    res.fault("act_raised")
                    bad = [t_ for (_, _, t_) in failed if t_ in m.data_collector.agent_statistics]
                    if bad:
                        res.violate("C12.statistics-recorded-for-an-incomplete-step", {"time": bad[0], "failed_act_of_agent": failed[0][1], "mode": mode,
                                                                                     "dt": sc["dt"], "collect": collect})
                if mode == "run" and not res.violations:
                    # the cause is repaired (nothing scripted is left) and the same model is run again: a run is a run
                    res.probe("run_again_after_a_failed_run")
                    w_ = m.world
                    for d_ in (w_.hook_ops, w_.act_ops, w_.state_script, w_.prop_script, w_.sends, w_.hook_sends):
                        d_.clear()
                    w_.calls = []
                    ids_ = [a.id for a in m.agents]
                    with _quiet():
                        m.run(collect_data=collect)
                    exp2 = []
                    for r_ in range(sc["start"], sc["stop"] + 1):
                        for s_ in range(spr):
                            t_ = r_ + s_ * sc["dt"]
                            exp2.append(("begin", t_, r_, s_))
                            for i_ in ids_:
                                exp2 += [("handle", i_, t_), ("act", i_, t_)]
                            exp2.append(("end", t_, r_, s_))
                            if collect or (r_ == sc["stop"] and s_ == spr - 1):
                                exp2.append(("collect", t_))
                    _cmp(res, "direct (run again after a failed run)", w_.calls, exp2, {"mode": mode, "dt": sc["dt"], "start": sc["start"], "stop": sc["stop"], "collect": collect})
                exp = None
            elif mode == "run":
                with _quiet():
                    m.run(show_progress_widget=widget, collect_data=collect)
                exp = _expected(sc, collect)
            elif mode == "run_twice":
                res.probe("model_run_again_with_other_run_spec")
                m.run(collect_data=collect)
                exp1 = _expected(sc, collect)
                if m.world.calls != exp1:
                    exp = exp1
                else:
                    sh1, k1 = W.expected_calls.last_shadow, W.expected_calls.last_k
                    s2 = sc["second"]
                    m.world.calls = []
                    m.run_specs(s2["start"], s2["stop"], s2["dt"])
                    collect = s2.get("collect", collect)       # the second run may switch data collection on or off
                    with _quiet():
                        m.run(show_progress_widget=widget, collect_data=collect)
                    sc = {**sc, "start": s2["start"], "stop": s2["stop"], "dt": s2["dt"]}
                    exp = _expected(sc, collect, sh=sh1, k0=k1, with_hooks=False)
                    spr = round(1 / sc["dt"])
            elif mode == "scheduler_steps":
                res.probe("driven_steps")
                for r in range(sc["start"], sc["stop"] + 1):
                    for s in range(spr):
                        m.scheduler.run_step(m, r, s, None, collect)
                exp = _expected(sc, collect, whole_run=False)
            else:
                res.probe("driven_steps")
                for s in range(spr):
                    m.run_step(s, collect_data=collect)
                exp = _expected(sc, collect)
        except HarnessError:
            raise
        except Exception as e:
            res.violate("C12.run-raised", {"mode": mode, "exception": type(e).__name__, "message": str(e)[:100],
                                           "start": sc["start"], "stop": sc["stop"], "dt": sc["dt"]})
            exp = None
        if exp is not None:
            _cmp(res, "direct", m.world.calls, exp, {"mode": mode, "dt": sc["dt"], "start": sc["start"], "stop": sc["stop"], "collect": collect})
            keys = sorted(m.data_collector.agent_statistics.keys())
            want = sorted({c[1] for c in exp if c[0] == "collect"})
            if keys != want:
                res.violate("C12.statistics-times", {"got": keys[:6], "expected": want[:6], "got_len": len(keys), "expected_len": len(want)})
            if not res.violations and mode in ("run", "scheduler_steps"):
                _pending_events_clause(res, m, sc["dt"], "direct")
        log.add("calls", m.world.calls)
        res.sim_units = m.world.k
        nsteps = (sc["stop"] - sc["start"] + 1) * spr
        res.nontrivial = nsteps >= 2 and (sc["dt"] != 1.0 or bool(sc["pop"]))
    else:
        # (half of these managers name their model class in dot notation - one instantiation per scenario - instead of
        #  handing over a model object that is deep-copied)
        b, models = W.build_bptk(scs, class_path=bool(case.get("class_path")))
        if case.get("class_path"):
            res.probe("class_path_manager_under_schedules")
        names = ["s%d" % n for n in range(len(scs))]
        pol = make_policy(case.get("sched") or {"kind": "default"})
        sched = Scheduler(pol, TRACE, log=log, critical_funcs=CRITICAL)
        out = None
        with patches.installed(threads="sched", global_thread=True):
            with sched:
                try:
                    with _quiet():
                        out = b.run_scenarios(scenarios=names, scenario_managers=["smAbm"], agents=["a", "b"], agent_states=["idle"],
                                              series_names={}, return_format="dict", progress_bar=widget)
                except Deadlock:
                    res.violate("C12.deadlock", {})
                except Exception as e:
                    res.violate("C12.run-raised", {"mode": mode, "exception": type(e).__name__, "message": str(e)[:100]})
        for te in sched.thread_excs:
            res.violate("C12.run-raised", {"mode": mode, "thread": te[0], "exception": te[1],
                                           "stops": [s["stop"] for s in scs], "starts": [s["start"] for s in scs]})
        res.points = sched.points
        res.sched = {"kind": "replay", "preemptions": sched.taken}
        res.interleaving = sched.interleaving_hash()
        line_switches = [e for e in log.of_kind("switch") if e[4] not in ("block", "finish", "deadlock")]
        if line_switches:
            res.fault("preemption", len(line_switches))
            res.probe("threads_interleaved")
        if not sched.thread_excs and not res.violations:
            for n, (sc, m) in enumerate(zip(scs, models)):
                exp = W.expected_calls(sc, True)
                want_times = sorted({c_[1] for c_ in exp if c_[0] == "collect"})
                got_calls = m.world.calls
                if case.get("class_path"):
                    # (a model the manager instantiates itself gets the package's own collector, which does not log its calls;
                    #  what it recorded is still judged below)
                    exp = [c_ for c_ in exp if c_[0] != "collect"]
                    got_calls = [c_ for c_ in got_calls if c_[0] != "collect"]
                if not _cmp(res, names[n], got_calls, exp, {"mode": mode, "dt": sc["dt"], "start": sc["start"], "stop": sc["stop"]}):
                    break
                keys = sorted(m.data_collector.agent_statistics.keys())
                want = want_times
                if keys != want:
                    res.violate("C12.statistics-times", {"scenario": names[n], "got": keys[:6], "expected": want[:6]})
                log.add("calls", n, m.world.calls)
                # "agent statistics are recorded once for that time": what was recorded for a time is that scenario's own
                # population at that time, whatever the other scenario threads were doing meanwhile (C13's oracle, under schedules)
                from checks.c13 import check_stats
                before_ = len(res.violations)
                check_stats(res, m.statistics(), m.world.snaps)
                for v in res.violations[before_:]:
                    v.clause = "C12.statistics-recorded-" + v.clause.split("-", 1)[-1]
                    v.detail["scenario"] = names[n]
                if len(res.violations) > before_:
                    break
                # every event handled in a scenario was sent in that scenario, and at most once
                sent = {u for (_, u, _, _) in m.world.sent}
                seen = set()
                for (k, aid, uid, st) in m.world.handled:
                    if uid not in sent:
                        res.violate("C12.foreign-event", {"scenario": names[n], "uid": uid, "step": k, "agent": aid})
                        break
                    if uid in seen:
                        res.violate("C12.event-handled-twice", {"scenario": names[n], "uid": uid})
                        break
                    seen.add(uid)
        res.sim_units = sum(m.world.k for m in models)
        res.nontrivial = bool(line_switches) and res.sim_units >= 2
        try:
            b.destroy()
        except Exception:
            pass
    res.digest = log.digest()
    return res


def shrink(case):
    yield from shrink_sched(case)
    if len(case["scenarios"]) > 2:
        for j in range(len(case["scenarios"])):
            if (case.get("sched") or {}).get("kind") == "replay":
                break
            c = copy.deepcopy(case)
            c["scenarios"].pop(j)
            yield c
    for j, sc in enumerate(case["scenarios"]):
        for key in ("pop", "states", "props", "sends", "acts"):
            if sc.get(key):
                for cand in shrink_list(sc[key]):
                    c = copy.deepcopy(case)
                    c["scenarios"][j][key] = copy.deepcopy(cand)
                    yield c
        if sc["stop"] - sc["start"] > 0 and case["mode"] != "model_run_step":
            c = copy.deepcopy(case)
            c["scenarios"][j]["stop"] = sc["stop"] - 1
            spr = round(1 / sc["dt"])
            kmax = (c["scenarios"][j]["stop"] - sc["start"] + 1) * spr
            for key in ("pop", "states", "props", "sends", "acts"):
                c["scenarios"][j][key] = [x for x in c["scenarios"][j].get(key, []) if x["k"] <= kmax]
            yield c
        if sc["dt"] != 1.0:
            c = copy.deepcopy(case)
            c["scenarios"][j]["dt"] = 1.0
            kmax = (sc["stop"] - sc["start"] + 1)
            for key in ("pop", "states", "props", "sends", "acts"):
                c["scenarios"][j][key] = [x for x in c["scenarios"][j].get(key, []) if x["k"] <= kmax]
            yield c


def trigger(case, v, f):
    return False


def neutralise(case, v, f):
    return None
