"""C11  Agent events reach exactly the addressed agent, once, at the right step.

Mapping: agents are nodes, Events are messages, Model.events is the network, Agent.events the
inbox, DelayedEvent a network delay, agent deletion a node crash WITH MESSAGES IN FLIGHT,
configure_agents a cluster restart that keeps the id counter.  The system under simulation is
the real Model, SimultaneousScheduler, Scheduler.handle_delayed_event and Agent event plumbing.
Oracle: a shadow mailbox (id-addressed, FIFO, exactly-once, ceil(delay/dt) with exact rationals).
"""
import copy
import math
import random
from fractions import Fraction

from sim.core import EventLog, RunResult, derive_seed
from checks.common import shrink_list
from checks.c14 import shadow_new, shadow_apply

PROPERTY = "C11"
LEVEL = "exploration"
SIM_UNIT = "ABM steps"
CHUNK = 40
RULE = ("a run = one scripted ABM execution: initial population (2 types), 3-30 steps driven through "
        "scheduler.run_step or a whole Model.run, a send script (sender, receiver incl. dead / never existing / own id, "
        "delay None or multiples and non-multiples of dt, dt in {1,0.5,0.25,0.2,0.1}), population operations between steps "
        "and inside the round hooks (create, delete with messages in flight, configure_agents, state changes); "
        "non-trivial = at least one event was sent and either a deletion/reconfiguration happened before the last delivery "
        "or a delayed event was sent; distinct = distinct event-log digest")
REAL = ["BPTK_Py.modeling.simultaneousScheduler.SimultaneousScheduler.run/run_step", "BPTK_Py.modeling.scheduler.Scheduler.handle_delayed_event",
        "BPTK_Py.modeling.agent.Agent (receive_event, handle_events, handlers)", "BPTK_Py.modeling.model.Model (enqueue_event, registry)",
        "BPTK_Py.modeling.event (Event, DelayedEvent)", "BPTK_Py.modeling.dataCollector"]
STUB = ["agents and model are scripted harness subclasses of Agent/Model (act performs the scripted sends, handlers record)"]
ASSUMPTIONS = ["deletions from inside act remove the acting agent itself or an agent created before it (never a later one, whose fate in that step the property leaves open)",
               "delays and dt are decimal literals with at most 6 decimals (0.3, not 0.30000000000000004)",
               "population changes happen between steps and in the two round hooks only, never inside act",
               "order is checked only between events sent to the same agent in the same step and handled in the same step"]
FAULT_KINDS = ["handler_raised", "agent_deleted_with_events_in_flight", "reconfiguration_with_events_in_flight", "send_to_dead_id", "delayed_event"]
PROBES = ["sd_equation_edited_inside_act", "event_forwarded_at_receipt", "equal_events_sent_several_times", "event_without_handler", "model_reset_with_events_in_flight", "deletion_inside_act", "sent_from_round_hook", "broadcast_event", "event_to_deleted_agent", "event_after_ids_shifted", "delayed_odd_wait", "non_multiple_delay", "two_events_same_agent_same_step",
          "delete_in_begin_hook_after_distribution", "decimal_dt_delay"]
EXHAUSTIVE = {"quick": False, "thorough": False}

DTS = [1.0, 0.5, 0.25, 0.2, 0.1]


def plan(tier, verif_seed):
    n = 6000 if tier == "quick" else 10**9
    for i in range(n):
        yield {"i": i, "seed": derive_seed(verif_seed, PROPERTY, i), "keep_sample": i < 1}


def generate(spec):
    rng = random.Random(spec["seed"])
    dt = rng.choice(DTS)
    steps = rng.choice([3, 5, 8, 12, 20, 30])
    drive = rng.choice(["run_step", "run_step", "run"])
    spr = round(1 / dt)
    if drive == "run":
        rounds = max(1, min(6, steps // spr))
        steps = (rounds + 1) * spr           # rounds 0..stop inclusive
    init = [["a", rng.choice([1, 2, 3])], ["b", rng.choice([0, 1, 2])]]
    n0 = sum(c for _, c in init)
    churn = rng.random() < 0.55
    pop = []
    next_id = n0
    for k in range(1, steps + 1):
        if churn and rng.random() < 0.18:
            where = rng.choice(["between", "begin", "end"]) if drive == "run_step" else rng.choice(["begin", "end"])
            r = rng.random()
            if r < 0.45:
                op = {"op": "delete", "id": rng.randrange(0, next_id + 1)}
            elif r < 0.75:
                op = {"op": "create", "type": rng.choice(["a", "b", "a", "b", "team"])}
                # a team takes its id first and creates two members while it initialises (nested creation): three ids
                next_id += 3 if op["type"] == "team" else 1
            elif r < 0.82:
                sp = [["a", rng.choice([1, 2])], ["b", rng.choice([0, 1])]]
                op = {"op": "configure", "spec": sp}
                next_id += sum(c for _, c in sp)
            elif r < 0.87:
                op = {"op": "reset"}            # the model is emptied; events in flight survive, ids are not reused
            else:
                op = {"op": "set_state", "id": rng.randrange(0, next_id + 1), "state": rng.choice(["idle", "busy", "done"])}
            pop.append({"k": k, "where": where, **op})
    sends = []
    uid = 0
    for k in range(0, steps):
        for _ in range(rng.choice([0, 0, 1, 1, 2, 3])):
            uid += 1
            r = rng.random()
            if r < 0.55:
                delay = None
            elif r < 0.8:
                delay = round(dt * rng.choice([1, 2, 3]), 6)          # decimal literals, as a user would write them
            elif r < 0.92:
                delay = round(dt * rng.choice([1, 2]) + dt / 2, 6)
            else:
                delay = float(rng.choice([1, 2]))
            frm = rng.randrange(0, next_id + 1) if (k > 0 and rng.random() < 0.8) else "driver"
            to = rng.randrange(0, next_id + 2)
            if rng.random() < 0.3 and sends:
                to = sends[-1]["to"]            # several events to the same agent
                if rng.random() < 0.7:
                    frm, delay = sends[-1]["from"], sends[-1]["delay"] if sends[-1]["k"] == k else delay
            sends.append({"k": k, "from": frm, "uid": uid, "to": to, "delay": delay,
                          "name": rng.choice(["ping", "pong", "ping", "pong", "noise"])})   # nobody has a handler for "noise"
            if rng.random() < 0.06:
                sends[-1]["copies"] = rng.choice([2, 2, 3])       # the same message sent several times: equal events are still separate events
            elif rng.random() < 0.06 and delay is None and sends[-1]["name"] != "noise":
                # the receiver is a dispatcher: it forwards the event to somebody else the moment it RECEIVES it
                uid += 1
                sends[-1]["fwd"] = {"to": rng.randrange(0, next_id + 1), "uid": uid}
    # deletions from inside act (the acting agent itself, or one created before it: both have already
    # handled their events and acted in this step)
    acts = []
    if churn:
        for k in range(1, steps + 1):
            if rng.random() < 0.08 and next_id > 1:
                a = rng.randrange(0, next_id)
                acts.append({"k": k, "by": a, "op": "delete", "id": rng.choice([a, a, rng.randrange(0, a + 1)])})
    if rng.random() < 0.2:
        # a hybrid model: some agent edits an SD equation from inside its act (the SD cache is reset, nothing else)
        for k in range(1, steps + 1):
            if rng.random() < 0.2:
                acts.append({"k": k, "by": rng.randrange(0, max(1, next_id)), "op": "sd_edit", "id": None, "value": rng.choice([1.0, 2.5, 7.0])})
    # events sent by the model itself from inside the round hooks, incl. broadcasts to all agents of a type
    hook_sends = []
    for k in range(1, steps + 1):
        if rng.random() < 0.12:
            uid += 1
            where = rng.choice(["begin", "end"])
            if rng.random() < 0.5:
                hook_sends.append({"k": k, "where": where, "broadcast": rng.choice(["a", "b"]), "uid_base": uid,
                                   "delay": rng.choice([None, None, round(dt * 2, 6)]), "name": "pong"})
            else:
                hook_sends.append({"k": k, "where": where, "uid": uid, "to": rng.randrange(0, next_id + 1),
                                   "delay": rng.choice([None, round(dt, 6)]), "name": "ping"})
    poison = None
    if drive == "run_step" and rng.random() < 0.12:
        # a handler fault: the handler of ONE event raises (once); the driver shrugs the failed step off and keeps stepping.
        # (pure messaging histories: what a failed step leaves of hook operations is not prescribed)
        cands = [s_ for s_ in sends if s_["name"] != "noise"]
        if cands:
            poison = rng.choice(cands)["uid"]
            pop, acts, hook_sends = [], [], []
    return {"property": PROPERTY, "dt": dt, "steps": steps, "drive": drive, "init": init, "pop": pop, "sends": sends, "hook_sends": hook_sends, "acts": acts,
            "poison": poison,
            # events are routed the same way whether or not the run collects statistics (training runs switch collection off)
            "collect": rng.random() < 0.7}


def expected_wait(delay, dt):
    if delay is None:
        return 0
    d = Fraction(str(delay))
    h = Fraction(str(dt))
    return max(0, math.ceil(d / h))


def execute(case):
    from models.abm_agents import make_model, send
    log = EventLog()
    res = RunResult()
    dt = case["dt"]
    steps = case["steps"]
    spr = round(1 / dt)
    stop = max(1, steps // spr - 1) if case["drive"] == "run" else 1000
    model = make_model(0, stop, dt)
    w = model.world
    sh = shadow_new()
    live_at = {}         # step k -> (live set at distribution time, live set at handle time)
    for t, c in case["init"]:
        for _ in range(c):
            model.create_agent(t, None)
            shadow_apply(sh, {"op": "create", "type": t})
    between = {}
    hooks = {}
    for p in case["pop"]:
        op = {x: y for x, y in p.items() if x not in ("k", "where")}
        if p["where"] == "between":
            between.setdefault(p["k"], []).append(op)
        else:
            w.hook_ops.setdefault((p["k"], p["where"]), []).append(op)
            hooks.setdefault((p["k"], p["where"]), []).append(op)
    driver_sends = {}
    for s in case["sends"]:
        if s["from"] == "driver":
            driver_sends.setdefault(s["k"], []).append(s)
        else:
            w.sends.setdefault((s["k"], s["from"]), []).append(s)
    for hs in case.get("hook_sends", ()):
        w.hook_sends.setdefault((hs["k"], hs["where"]), []).append({x: y for x, y in hs.items() if x not in ("k", "where")})
        res.probe("sent_from_round_hook")
        if "broadcast" in hs:
            res.probe("broadcast_event")
    acts_at = {}
    for a in case.get("acts", ()):
        if a["op"] == "sd_edit":
            w.act_ops.setdefault((a["k"], a["by"]), []).append({"op": "sd_edit", "value": a["value"]})
            res.probe("sd_equation_edited_inside_act")
            continue
        w.act_ops.setdefault((a["k"], a["by"]), []).append({"op": a["op"], "id": a["id"]})
        acts_at.setdefault(a["k"], []).append(a)
        res.probe("deletion_inside_act")
    raised = None
    ids_shifted = False
    fault_step = None
    poison_ok = case.get("poison") is not None and case["drive"] == "run_step" and not case["pop"] and not case.get("acts") and not case.get("hook_sends")
    if poison_ok:
        w.poison_uid = case["poison"]

    def note_destructive(op):
        nonlocal ids_shifted
        if op["op"] in ("delete", "configure", "reset"):
            ids_shifted = True
        if op["op"] == "reset":
            res.probe("model_reset_with_events_in_flight")

    def apply_acts(k):
        # agents act in list order; an act deletion only happens if its acting agent is still alive at that moment
        for a in sorted(acts_at.get(k, ()), key=lambda a: list(sh["live"]).index(a["by"]) if a["by"] in sh["live"] else 10**9):
            if a["by"] in sh["live"]:
                shadow_apply(sh, {"op": "delete", "id": a["id"]})
                note_destructive({"op": "delete"})

    def shadow_step(k):
        # mirror what happens to the population around step k
        for op in hooks.get((k, "begin"), ()):
            shadow_apply(sh, op)
            note_destructive(op)

    if case["drive"] == "run_step":
        for k in range(1, steps + 1):
            for op in between.get(k, ()):
                w.apply_op(model, op)
                shadow_apply(sh, op)
                note_destructive(op)
            for s in driver_sends.get(k - 1, ()):
                send(model, w, s, 0)
            dist = set(sh["live"])
            shadow_step(k)
            live_at[k] = (dist, set(sh["live"]))
            try:
                model.scheduler.run_step(model, (k - 1) // spr, (k - 1) % spr, None, case.get("collect", True))
            except Exception as e:
                if poison_ok and fault_step is None and getattr(w, "poison_fired", False):
                    fault_step = k          # the injected handler fault: the driver carries on with the next step
                    res.fault("handler_raised")
                    continue
                raised = (k, type(e).__name__, str(e)[:80])
                break
            apply_acts(k)
            for op in hooks.get((k, "end"), ()):
                shadow_apply(sh, op)
                note_destructive(op)
    else:
        for s in driver_sends.get(0, ()):
            send(model, w, s, 0)
        for k in range(1, steps + 1):
            dist = set(sh["live"])
            shadow_step(k)
            live_at[k] = (dist, set(sh["live"]))
            apply_acts(k)
            for op in hooks.get((k, "end"), ()):
                shadow_apply(sh, op)
                note_destructive(op)
        try:
            model.run(collect_data=case.get("collect", True))
        except Exception as e:
            raised = (w.k, type(e).__name__, str(e)[:80])
    done = w.k if raised is None else raised[0] - 1
    log.add("sent", w.sent)
    log.add("handled", w.handled)
    res.sim_units = w.k
    if raised is not None:
        res.violate("C11.step-raised", {"step": raised[0], "exception": raised[1], "message": raised[2],
                                        "ids_no_longer_positions": ids_shifted})
    # ---- mailbox oracle over the recorded history
    handled_by_uid = {}
    for (k, aid, uid, st) in w.handled:
        handled_by_uid.setdefault(uid, []).append((k, aid))
    sent_uids = set()
    any_delayed = False
    n_dead = 0
    noise = {s_["uid"] for s_ in case["sends"] if s_.get("name") == "noise"}
    fwd_uids = {s_["fwd"]["uid"] for s_ in case["sends"] if s_.get("fwd")}
    mult = {}
    for (_, uid_, _, _) in w.sent:
        mult[uid_] = mult.get(uid_, 0) + 1
    for (ks, uid, to, delay) in w.sent:
        if uid in sent_uids:
            continue        # a further copy of a message that is judged as a whole (mult[uid] equal events)
        sent_uids.add(uid)
        m_ = mult[uid]
        if m_ > 1:
            res.probe("equal_events_sent_several_times")
        if uid in fwd_uids:
            res.probe("event_forwarded_at_receipt")
        if uid in noise:
            res.probe("event_without_handler")
            if handled_by_uid.get(uid):
                res.violate("C11.phantom", {"uid": uid, "name": "noise", "handled": handled_by_uid[uid]})
            continue
        wait = expected_wait(delay, dt)
        if delay is not None:
            any_delayed = True
            res.fault("delayed_event")
            if wait % 2 == 1:
                res.probe("delayed_odd_wait")
            if Fraction(str(delay)) % Fraction(str(dt)) != 0:
                res.probe("non_multiple_delay")
            if dt in (0.1, 0.2):
                res.probe("decimal_dt_delay")
        K = ks + 1 + wait
        got = handled_by_uid.get(uid, [])
        if K > done:
            if got and raised is None:
                res.violate("C11.wrong-step", {"uid": uid, "sent_in_step": ks, "delay": delay, "dt": dt, "expected_step": K, "handled": got})
            continue
        dist, hand = live_at.get(K, (set(), set()))
        alive = to in dist and to in hand
        if not alive:
            n_dead += 1
            res.fault("send_to_dead_id")
            if to in sh["ever"]:
                res.probe("event_to_deleted_agent")
                if to in dist and to not in hand:
                    res.probe("delete_in_begin_hook_after_distribution")
            if got:
                res.violate("C11.reached-another-agent" if any(a != to for _, a in got) else "C11.handled-by-dead-agent",
                            {"uid": uid, "addressed_to": to, "handled": got, "live_ids": sorted(hand)})
            continue
        if ids_shifted:
            res.probe("event_after_ids_shifted")
        if raised is not None and K >= raised[0]:
            continue
        if fault_step is not None and K >= fault_step:
            # from the failed step on, WHEN an event is handled is not prescribed (the step was cut short) - but an event is
            # still handled at most once, and only by the agent it was sent to
            if len(got) > m_:
                res.violate("C11.duplicate", {"uid": uid, "handled": got, "after_handler_fault_in_step": fault_step, "copies_sent": m_})
            elif got and got[0][1] != to:
                res.violate("C11.reached-another-agent", {"uid": uid, "addressed_to": to, "handled_by": got[0][1], "step": got[0][0]})
            continue
        if len(got) < m_:
            res.violate("C11.lost", {"uid": uid, "to": to, "sent_in_step": ks, "delay": delay, "dt": dt, "expected_step": K,
                                     "copies_sent": m_, "copies_handled": len(got)})
        elif len(got) > m_:
            res.violate("C11.duplicate", {"uid": uid, "handled": got, "copies_sent": m_})
        elif len({g_ for g_ in got}) > 1:
            res.violate("C11.wrong-step", {"uid": uid, "sent_in_step": ks, "delay": delay, "dt": dt, "expected_step": K, "handled": got,
                                           "copies_sent": m_})
        else:
            (kh, ah) = got[0]
            if ah != to:
                res.violate("C11.reached-another-agent", {"uid": uid, "addressed_to": to, "handled_by": ah, "step": kh})
            elif kh != K:
                res.violate("C11.wrong-step", {"uid": uid, "sent_in_step": ks, "delay": delay, "dt": dt, "expected_step": K,
                                               "handled_in_step": kh, "expected_wait_steps": wait})
    for uid in handled_by_uid:
        if uid not in sent_uids:
            res.violate("C11.phantom", {"uid": uid, "handled": handled_by_uid[uid]})
    # order: same receiver, same send step, same handling step -> send order
    send_pos = {uid: n for n, (ks, uid, to, delay) in enumerate(w.sent)}
    send_step = {uid: ks for (ks, uid, to, delay) in w.sent}
    groups = {}
    for (k, aid, uid, st) in w.handled:
        if uid in send_step:
            groups.setdefault((k, aid, send_step[uid]), []).append(uid)
    for (k, aid, ks), uids in groups.items():
        if len(uids) > 1:
            res.probe("two_events_same_agent_same_step")
            if [send_pos[u] for u in uids] != sorted(send_pos[u] for u in uids):
                delays = {u: d for (_, u, _, d) in w.sent if u in uids}
                res.violate("C11.order", {"agent": aid, "handled_in_step": k, "sent_in_step": ks, "handled_order": uids,
                                          "sent_order": sorted(uids, key=lambda u: send_pos[u]), "delays": delays, "dt": dt})
                break
    for p in case["pop"]:
        if p["op"] == "delete":
            res.fault("agent_deleted_with_events_in_flight")
        if p["op"] == "configure":
            res.fault("reconfiguration_with_events_in_flight")
    res.nontrivial = bool(w.sent) and (ids_shifted or any_delayed)
    res.digest = log.digest()
    return res


def shrink(case):
    if case.get("hook_sends"):
        for cand in shrink_list(case["hook_sends"]):
            c = copy.deepcopy(case)
            c["hook_sends"] = copy.deepcopy(cand)
            yield c
    if case.get("acts"):
        for cand in shrink_list(case["acts"]):
            c = copy.deepcopy(case)
            c["acts"] = copy.deepcopy(cand)
            yield c
    for cand in shrink_list(case["sends"]):
        c = copy.deepcopy(case)
        c["sends"] = copy.deepcopy(cand)
        yield c
    for cand in shrink_list(case["pop"]):
        c = copy.deepcopy(case)
        c["pop"] = copy.deepcopy(cand)
        yield c
    if case["drive"] == "run_step" and case["steps"] > 2:
        last = max([s["k"] for s in case["sends"]] + [0])
        for st in (last + 2, last + 3, case["steps"] // 2):
            if 2 <= st < case["steps"]:
                c = copy.deepcopy(case)
                c["steps"] = st
                c["pop"] = [p for p in c["pop"] if p["k"] <= st]
                c["sends"] = [s for s in c["sends"] if s["k"] < st]
                c["hook_sends"] = [s for s in c.get("hook_sends", []) if s["k"] <= st]
                c["acts"] = [s for s in c.get("acts", []) if s["k"] <= st]
                yield c
    for n, s in enumerate(case["sends"]):
        if s["from"] != "driver":
            c = copy.deepcopy(case)
            c["sends"][n]["from"] = "driver"
            yield c
    if case["dt"] != 1.0 and case["drive"] == "run_step":
        c = copy.deepcopy(case)
        f = 1.0 / case["dt"]
        c["dt"] = 1.0
        for s in c["sends"]:
            if s["delay"] is not None:
                s["delay"] = round(s["delay"] * f, 6)
        yield c


def trigger(case, v, f):
    return False


def neutralise(case, v, f):
    return None
