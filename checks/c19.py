"""C19  Externalised instance state is restored losslessly  (the FAULT-FREE configuration of
the durability simulation; C20 is the fault-injecting one).

Session histories x adapter mode x save route (automatic save after a stepping request,
GET /save-state) x load route (lazy restore after a time-out, POST /load-state, a new server
on the same simulated file system).  Oracle: REST results and the JSON-normalised session
state before the save equal those after the load; saving does not disturb the live instance.
"""
import copy
import json
import random

from sim.core import EventLog, RunResult, derive_seed, canon_json
from worlds.server_world import ServerWorld
from checks.common import shrink_list

PROPERTY = "C19"
LEVEL = "exploration"
SIM_UNIT = "session steps"
CHUNK = 10
RULE = ("a run = 1-3 instances, each with a session history (run spec start in {0,1,2.5}, dt in {1,0.5,0.25,0.1}; steps "
        "with settings / empty settings / no body; run-steps; stream-steps) x adapter mode (plain/compressed) x save "
        "route (auto / save-state) x load route (time-out restore / load-state / new server); non-trivial = at least "
        "one instance with >= 2 logged steps was saved and loaded back and compared; distinct = distinct event-log digest")
REAL = ["BPTK_Py.externalstateadapter (ExternalStateAdapter, FileAdapter)", "BPTK_Py.util.statecompression",
        "BPTK_Py.server.bptkServer (_get_instance_state, reconstruct_instance, save/load routes, _ensure_instance_exists)",
        "BPTK_Py.bptk (_set_state, session_results)", "jsonpickle (real encode/decode of the state file)", "Flask", "werkzeug test client"]
STUB = ["file system under FileAdapter (simfs, fault-free here)", "wall clock", "uuid source",
        "process restart (objects dropped, module state survives)", "SdSimulation worker threads run serially"]
ASSUMPTIONS = ["no faults are injected in this check (see C20)",
               "dict keys are compared as canonical float strings: the adapter is JSON based, 1.0 <-> '1.0' is not a difference the property can mean",
               "the `lock` field is excluded: _get_instance_state deliberately externalises it as False",
               "every compared instance has a session when GET /save-state is called"]
FAULT_KINDS = ["preemption", ]
PROBES = ["stochastic_element_in_restored_session", "second_server_on_the_same_state_directory", "step_failed_inside_a_run_steps_request", "unstepped_session_saved_by_save_state", "saves_of_two_instances_overlap", "session_over_two_managers", "two_stepping_requests_in_flight", "numeric_manager_name", "abandoned_stream", "second_save_load_cycle", "live_instance_diverged_from_saved", "save_state_after_eviction", "second_session_in_instance", "loaded_via_timeout", "loaded_via_load_state", "loaded_via_restart", "saved_via_save_state", "compressed_mode",
          "step_without_body", "step_with_empty_settings", "nonuniform_settings", "decimal_dt"]
EXHAUSTIVE = {"quick": False, "thorough": False}

STARTS = [0.0, 1.0, 2.5]
DTS = [1.0, 0.5, 0.25, 0.1]


def directed_pair(adapter, a_first, k=None):
    """run-steps(2) and run-step of ONE instance in flight together; with k: a single pre-emption at scheduling point k"""
    sched = {"kind": "default"} if k is None else {"kind": "overtake", "k": k, "to": 1}
    return {"property": PROPERTY, "more": None, "load_route2": "restart", "diverge": None,
            "config": {"adapter": adapter, "model": {"template": "T1", "start": 1.0, "stop": 9.0, "dt": 1.0,
                                                     "managers": {"smA": {"base": {}, "alt": {"constants": {"constant": 2.0}}}}}},
            "instances": [{"timeout": {"seconds": 30},
                           "ops": [{"op": "begin", "scenarios": ["base"], "equations": ["stock", "constant"], "settings": {}},
                                   {"op": "step", "settings": {"smA": {"base": {"constants": {"constant": 3.0}}}}},
                                   {"op": "pair", "a_first": a_first, "wide": True, "sched": sched,
                                    "a": {"op": "steps", "n": 2, "settings": {"smA": {"base": {"constants": {"constant": 3.0}}}}},
                                    "b": {"op": "step", "settings": {"smA": {"base": {"constants": {"constant": 3.0}}}}}}]}],
            "save_route": "auto", "load_route": "restart"}


def plan(tier, verif_seed):
    # complete single-pre-emption sweep of a directed pair (both start orders): every point at which the request that
    # runs first can be overtaken by the other one
    i = 0
    for a_first in (True, False):
        r0 = execute(directed_pair("plain", a_first))
        for k in range(r0.points, 0, -1):
            yield {"i": i, "directed_pair": {"adapter": "plain", "a_first": a_first, "k": k - 1}}
            i += 1
    n = 640 if tier == "quick" else 10**9
    for j in range(n):
        yield {"i": i + j, "seed": derive_seed(verif_seed, PROPERTY, j), "keep_sample": j < 2}


def _sett(rng, template, scen):
    if template == "T1":
        # 0.1 and 1/3: sums such as 0.30000000000000004 need all 17 significant digits to survive a round trip
        return {"smA": {scen: {"constants": {"constant": rng.choice([0.5, 2.0, 3.0, 7.0, 0.1, 0.3333333333333333, 1.5e308])}}}}      # (1.5e308: the stock overflows to Infinity after two steps - a value like any other)
    r = rng.random()
    if r < 0.4:
        return {"smA": {scen: {"constants": {"k": rng.choice([0.5, 1.0, 2.0])}}}}
    if r < 0.7:
        return {"smA": {scen: {"constants": {"drain": rng.choice([0.0, 0.25, 1.0])}}}}
    return {"smA": {scen: {"points": {"tbl": [[0.0, rng.choice([1.0, 2.0])], [6.0, 4.0], [12.0, 0.0]]}}}}


def generate(spec):
    if "directed_pair" in spec:
        dp = spec["directed_pair"]
        return directed_pair(dp["adapter"], dp["a_first"], dp["k"])
    rng = random.Random(spec["seed"])
    template = rng.choice(["T1", "T1", "T2"])
    start = rng.choice(STARTS)
    dt = rng.choice(DTS)
    nmax = rng.choice([4, 8, 14])
    stop = start + dt * nmax
    adapter = rng.choice(["plain", "compressed"])
    eqs = {"T1": ["stock", "flow", "constant"], "T2": ["stockA", "stockB", "move", "gain"]}[template]
    save_route = rng.choice(["auto", "auto", "save_state"])
    load_route = rng.choice(["timeout", "load_state", "restart", "timeout_then_save_state"])
    uniform = rng.random() < 0.35     # every step carries the same settings structure
    insts = []
    for j in range(rng.choice([1, 1, 2, 3])):
        scen = rng.choice(["base", "alt"])
        ops = [{"op": "begin", "scenarios": [scen], "equations": rng.sample(eqs, rng.randint(1, len(eqs))),
                "settings": _sett(rng, template, scen) if rng.random() < 0.3 else {}}]
        budget = nmax
        fixed = _sett(rng, template, scen)
        if save_route == "save_state" and rng.random() < 0.12:
            budget = 0          # a session that was begun but never stepped: the whole-server save is the only thing that writes it
            ops.append({"op": "results"})
        while budget > 0 and len(ops) < 9:
            r = rng.random()
            if uniform:
                s = copy.deepcopy(fixed)
            else:
                s = rng.choice([{}, {}, None, "gen", "gen"])
                if s == "gen":
                    s = _sett(rng, template, scen)
            if r < 0.6:
                ops.append({"op": "step", "settings": s})
                budget -= 1
            elif r < 0.8:
                n = min(budget, rng.choice([1, 2, 3]))
                ops.append({"op": "steps", "n": n, "settings": s if s is not None else {}})
                if n >= 2 and rng.random() < 0.25:
                    # one of the later steps of the request fails (before it starts / in the middle of it): the request still
                    # answers with the steps that were taken, and what was taken is what a restore brings back
                    ops[-1]["raise_at"] = rng.randrange(1, n)
                    ops[-1]["raise_where"] = rng.choice(["before", "inside"])
                budget -= n
            elif r < 0.84 and len(ops) > 1 and budget > 3 and rng.random() < 0.5:
                # two stepping requests of this instance in flight together (line-level schedule inside server and adapter):
                # whatever was served is what a restore brings back
                s2 = copy.deepcopy(fixed) if uniform else {}
                ops.append({"op": "pair", "a": {"op": "steps", "n": 2, "settings": s2}, "b": {"op": "step", "settings": copy.deepcopy(s2)},
                            "sched": {"kind": "random", "seed": rng.randrange(2**32), "p": rng.choice([0.02, 0.1, 0.3])}})
                budget -= 3
            elif r < 0.86 and len(ops) > 1 and budget > 2:
                # a client that hangs up in the middle of a stream: the steps it was sent are taken and saved
                ch = rng.choice([2, 3, 4, 6])
                ops.append({"op": "stream_cut", "chunks": ch, "settings": s if s is not None else {}})
                budget -= (ch + 1) // 2 + 1
            elif r < 0.9 and len(ops) > 1:
                ops.append({"op": "stream", "settings": s if s is not None else {}})
                budget = 0
            else:
                ops.append({"op": "results"})
        if rng.random() < 0.3:
            # a second session in the same instance (other scenario / equations / settings), stepped as
            # far as the first one or less: the session clock revisits values that were saved before
            taken = sum((o.get("n", 1) if o["op"] == "steps" else 1) for o in ops if o["op"] in ("step", "steps"))
            if taken and not any(o["op"] == "stream" for o in ops):
                scen2 = "alt" if scen == "base" else "base"
                ops.append({"op": "begin", "scenarios": [scen2], "equations": rng.sample(eqs, rng.randint(1, len(eqs))),
                            "settings": _sett(rng, template, scen2) if rng.random() < 0.5 else {}})
                if rng.random() < 0.5:
                    # one request that lands exactly on the clock value the first session was last saved at
                    ops.append({"op": "steps", "n": taken, "settings": rng.choice([{}, _sett(rng, template, scen2)])})
                else:
                    for _ in range(rng.choice([taken, taken, max(1, taken - 1)] + ([0] if save_route == "save_state" else []))):
                        ops.append({"op": "step", "settings": rng.choice([{}, _sett(rng, template, scen2)])})
        if save_route == "auto":
            while ops and ops[-1]["op"] == "results":
                ops.pop()
        insts.append({"timeout": {"seconds": 30}, "ops": ops})
    more = None
    if rng.random() < 0.3:
        more = [{"op": "step", "settings": copy.deepcopy(fixed) if uniform else rng.choice([{}, _sett(rng, template, "base")])}
                for _ in range(rng.choice([1, 2]))]
    extra = {"more": more, "load_route2": rng.choice(["timeout", "load_state", "restart"]),
             # a second server process on the same state directory (two workers behind one balancer): it is asked about an
             # instance before that instance has ever been saved (and rightly refuses), and again once it has been
             "peer": rng.random() < 0.15,
             "diverge": rng.choice([None, None, "end", "begin"])}
    # the scenario manager's name is data too: names that look like numbers ("2023") are legal
    mgr_name = rng.choice(["smA", "smA", "smA", "2023", "1"])
    case = {"property": PROPERTY, **extra,
            "config": {"adapter": adapter,
                       "model": {"template": template, "start": start, "stop": stop, "dt": dt,
                                 "managers": {"smA": {"base": {}, "alt": {"constants": {"constant": 2.0} if template == "T1" else {"drain": 1.0}}}}}},
            "instances": insts, "save_route": save_route, "load_route": load_route}
    if len(insts) >= 2 and rng.random() < 0.5:
        case["cross_pair"] = {"sched": {"kind": "random", "seed": rng.randrange(2**32), "p": rng.choice([0.15, 0.3, 0.5])},
                              "uniform": copy.deepcopy(fixed) if uniform else None}
    if more and rng.random() < 0.5:
        # a stochastic element in the model (and in every session's equations): what was served for a step stays what it was
        case["config"]["model"]["noise"] = True
        for inst_ in case["instances"]:
            for o_ in inst_["ops"]:
                if o_["op"] == "begin" and "noise" not in o_["equations"]:
                    o_["equations"] = list(o_["equations"]) + ["noise"]
    if mgr_name != "smA":
        import json
        case = json.loads(json.dumps(case).replace('"smA"', json.dumps(mgr_name)))
    if rng.random() < 0.25:
        # a second scenario manager with scenarios of the SAME names but other values: sessions cover both managers
        first = sorted(case["config"]["model"]["managers"])[0]
        other = {"T1": {"base": {"constants": {"constant": 4.0}}, "alt": {"constants": {"constant": 0.5}}},
                 "T2": {"base": {"constants": {"k": 3.0}}, "alt": {"constants": {"drain": 0.25}}}}[template]
        case["config"]["model"]["managers"]["zzOther"] = other
        case["config"]["session_managers"] = [first, "zzOther"] if rng.random() < 0.5 else ["zzOther", first]
        if rng.random() < 0.5:
            # ... and a scenario that only ONE of the two managers owns takes part in the sessions
            other["only"] = {"constants": {"constant": 6.0}} if template == "T1" else {"constants": {"k": 0.75}}
            for inst_ in case["instances"]:
                for o_ in inst_["ops"]:
                    if o_["op"] == "begin":
                        o_["scenarios"] = list(o_["scenarios"]) + ["only"]
    return case


PAIR_TRACE = ("server/bptkServer.py", "BPTK_Py/bptk.py", "externalstateadapter/externalStateAdapter.py")


def rng_bit(case):
    return len(case["instances"]) % 2 == 0


def T_first_eq(cfg):
    return {"T1": "stock", "T2": "stockA"}[cfg["model"]["template"]]


def _normkey(k):
    if isinstance(k, bool):
        return str(k)
    if isinstance(k, (int, float)):
        return repr(float(k))
    try:
        return repr(float(k))
    except (TypeError, ValueError):
        return str(k)


def norm(x):
    if isinstance(x, dict):
        return {_normkey(k): norm(v) for k, v in x.items()}
    if isinstance(x, (list, tuple)):
        return [norm(v) for v in x]
    try:
        import numpy as np
        if isinstance(x, np.generic):
            return x.item()
    except Exception:
        pass
    return x


def _flat(ops):
    out = []
    for o in ops:
        if o["op"] == "pair":
            out += [o["a"], o["b"]]
        else:
            out.append(o)
    return out


def _settings_shapes(ops):
    shapes = set()
    for o in _flat(ops):
        if o["op"] in ("step", "steps", "stream", "stream_cut"):
            s = o.get("settings")
            shapes.add(canon_json(sorted(_paths(s))) if s else "EMPTY" if s is not None else "NONE")
    return shapes


def _paths(d, pre=()):
    out = []
    if isinstance(d, dict) and d:
        for k, v in d.items():
            if isinstance(v, dict):
                out += _paths(v, pre + (k,))
            else:
                out.append("/".join(pre + (k,)))
    return out


def execute(case):
    log = EventLog()
    res = RunResult()
    cfg = case["config"]
    MGR = sorted(cfg["model"]["managers"])[0]
    if MGR != "smA":
        res.probe("numeric_manager_name")
    if cfg.get("session_managers"):
        res.probe("session_over_two_managers")
    conc = any(o["op"] == "pair" for inst in case["instances"] for o in inst["ops"]) or bool(case.get("cross_pair"))
    with ServerWorld({"model": cfg["model"], "adapter": cfg["adapter"], "threads": "auto" if conc else "serial"}, log, res) as w:
        w.boot()
        ids = []
        statuses = []
        peer_box = {}

        def peer_get(path):
            from BPTK_Py.server import BptkServer
            from BPTK_Py.externalstateadapter import FileAdapter
            from worlds.server_world import Resp
            if "app" not in peer_box:
                peer_box["app"] = BptkServer("verif_peer", w._factory(), FileAdapter(cfg["adapter"] == "compressed", w.fs.root), w.token)
                peer_box["app"].logger.disabled = True
                res.probe("second_server_on_the_same_state_directory")
            rr = peer_box["app"].test_client().get(path, headers=w.headers(True))
            return Resp(rr.status_code, rr.get_data(as_text=True))
        if cfg["adapter"] == "compressed":
            res.probe("compressed_mode")
        if cfg["model"]["dt"] in (0.1,):
            res.probe("decimal_dt")
        for j, inst in enumerate(case["instances"]):
            r = w.post("/start-instance", {"timeout": inst["timeout"]})
            iid = r.body["instance_uuid"]
            ids.append(iid)
            if len(_settings_shapes(inst["ops"])) > 1:
                res.probe("nonuniform_settings")
            if sum(1 for o in inst["ops"] if o["op"] == "begin") > 1:
                res.probe("second_session_in_instance")
            for n, o in enumerate(inst["ops"]):
                if o["op"] == "begin":
                    r = w.post("/%s/begin-session" % iid, {"scenario_managers": list(cfg.get("session_managers") or [MGR]), "scenarios": o["scenarios"],
                                                           "equations": o["equations"], "settings": o["settings"]})
                    if case.get("peer") and n == 0:
                        rp_ = peer_get("/%s/session-results" % iid)
                        log.add("peer_probe", j, rp_.status)
                        if rp_.status == 200:
                            res.violate("C19.3-request-failed-with-adapter", {"op": "peer session-results of an instance that was never saved", "status": rp_.status})
                elif o["op"] == "step":
                    if o["settings"] is None:
                        res.probe("step_without_body")
                    elif o["settings"] == {}:
                        res.probe("step_with_empty_settings")
                    r = w.post("/%s/run-step" % iid, None if o["settings"] is None else {"settings": o["settings"]})
                    res.sim_units += 1
                elif o["op"] == "steps":
                    tag_ = "i%dop%d" % (j, n)
                    if o.get("raise_at") is not None:
                        w.raise_at[tag_] = o["raise_at"]
                        w.raise_where[tag_] = o.get("raise_where", "before")
                        res.probe("step_failed_inside_a_run_steps_request")
                    r = w.post("/%s/run-steps" % iid, {"settings": o["settings"], "numberSteps": o["n"]}, tag=tag_)
                    res.sim_units += o["n"]
                elif o["op"] == "pair":
                    from sim.threads import Scheduler, make_policy, run_tasks
                    box = {}

                    def ca():
                        box["a"] = w.post("/%s/run-steps" % iid, {"settings": o["a"]["settings"], "numberSteps": o["a"]["n"]})

                    def cb():
                        box["b"] = w.post("/%s/run-step" % iid, {"settings": o["b"]["settings"]})
                    sp = dict(o["sched"])
                    narrow = (not o.get("wide")) and sp.get("seed", 1) % 3 == 0
                    sched = Scheduler(make_policy(sp), PAIR_TRACE[2:] if narrow else PAIR_TRACE, log=None)
                    with sched:
                        # (the task created last runs first under the default policy)
                        rr_ = run_tasks(sched, [cb, ca] if o.get("a_first") else [ca, cb])
                    res.points += sched.points
                    for x_ in rr_:
                        if x_ and x_[0] == "exc":
                            raise x_[1]
                    res.probe("two_stepping_requests_in_flight")
                    if sched.switches > 2:
                        res.fault("preemption", sched.switches)
                    log.add("pair", j, n, sched.interleaving_hash(), box["a"].status, box["b"].status)
                    bad = [x for x in (box["a"], box["b"]) if x.status != 200 and "locked" not in str(x.text)]
                    r = bad[0] if bad else (box["a"] if box["a"].status == 200 else box["b"])
                    res.sim_units += 3
                elif o["op"] == "stream_cut":
                    r, cut, _ = w.stream("/%s/stream-steps" % iid, {"settings": o["settings"]}, chunks=o["chunks"])
                    if cut:
                        res.probe("abandoned_stream")
                elif o["op"] == "stream":
                    r, _, _ = w.stream("/%s/stream-steps" % iid, {"settings": o["settings"]})
                else:
                    r = w.get("/%s/session-results" % iid)
                statuses.append([j, n, o["op"], r.status])
                log.add("op", j, n, o["op"], r.status)
                if r.status != 200:
                    res.violate("C19.3-request-failed-with-adapter", {"inst": j, "op_index": n, "op": o["op"],
                                                                      "settings_is_none": o.get("settings", 0) is None,
                                                                      "status": r.status, "adapter": cfg["adapter"]})
        if case.get("cross_pair") and len(ids) >= 2:
            # one more step on two DIFFERENT instances, in flight together: their saves overlap inside the adapter
            from sim.threads import Scheduler, make_policy, run_tasks
            box = {}

            def mk(j_):
                def f():
                    box[j_] = w.post("/%s/run-step" % ids[j_], {"settings": {}} if not case["cross_pair"].get("uniform") else {"settings": case["cross_pair"]["uniform"]})
                return f
            sched = Scheduler(make_policy(case["cross_pair"]["sched"]), PAIR_TRACE[2:], log=None)
            with sched:
                rr_ = run_tasks(sched, [mk(0), mk(1)])
            for x_ in rr_:
                if x_ and x_[0] == "exc":
                    raise x_[1]
            res.probe("saves_of_two_instances_overlap")
            if sched.switches > 2:
                res.fault("preemption", sched.switches)
            log.add("cross_pair", sched.interleaving_hash(), box[0].status, box[1].status)
            for j_ in (0, 1):
                if box[j_].status != 200:
                    res.violate("C19.3-request-failed-with-adapter", {"inst": j_, "op": "run-step (two instances in flight together)",
                                                                      "status": box[j_].status, "adapter": cfg["adapter"]})
        if case.get("peer") and not res.violations:
            # the peer is asked again: whatever has been saved by now is restored there on demand
            for j, iid in enumerate(ids):
                if ("/state/%s.json" % iid) not in w.fs.files:
                    continue
                changing = [o_["op"] for o_ in case["instances"][j]["ops"] if o_["op"] != "results"]
                if not changing or changing[-1] == "begin":
                    continue        # the live instance has moved on (a session begun, not stepped yet): what is stored is the earlier session
                a_ = w.get("/%s/session-results" % iid)
                p_ = peer_get("/%s/session-results" % iid)
                log.add("peer_read", j, p_.status)
                if p_.status != 200 or (p_.body if p_.body is not None else p_.text) != (a_.body if a_.body is not None else a_.text):
                    if not (cfg["adapter"] == "compressed"):
                        res.violate("C19.1-results-differ-after-restore", {"inst": j, "route": "on demand, on a second server sharing the state directory",
                                                                           "adapter": cfg["adapter"], "before": str(a_.text)[:200], "after": str(p_.text)[:200],
                                                                           "status": p_.status})
                    else:
                        # (compressed mode: the listed findings apply to what the peer reads as well; only a refusal is judged)
                        if p_.status != 200:
                            res.violate("C19.1-results-differ-after-restore", {"inst": j, "route": "on demand, on a second server sharing the state directory",
                                                                               "adapter": cfg["adapter"], "status": p_.status, "after": str(p_.text)[:200]})
        compared = [0]

        def cycle(cno):
            route = case["load_route"] if cno == 0 else case.get("load_route2", case["load_route"])
            # ---- before
            def observe(iid):
                a = w.get("/%s/session-results" % iid)
                b = w.get("/%s/flat-session-results" % iid)
                return [a.status, a.body if a.body is not None else a.text, b.status, b.body if b.body is not None else b.text]

            before = {}
            state_before = {}
            for j, iid in enumerate(ids):
                b = w.bptk_of(iid)
                state_before[j] = norm(copy.deepcopy(b.session_state)) if b is not None and b.session_state else None
                before[j] = observe(iid)
            if case["save_route"] == "save_state":
                r = w.get("/save-state")
                res.probe("saved_via_save_state")
                log.add("save_state", r.status)
                if r.status != 200:
                    res.violate("C19.3-request-failed-with-adapter", {"op": "save-state", "status": r.status})
            # (0) saving does not disturb the live instance
            for j, iid in enumerate(ids):
                now = observe(iid)
                b = w.bptk_of(iid)
                live = norm(copy.deepcopy(b.session_state)) if b is not None and b.session_state else None
                if now != before[j] or _strip(live) != _strip(state_before[j]):
                    res.violate("C19.0-save-disturbed-live-instance", {"inst": j, "before": str(before[j])[:200], "after": str(now)[:200]})
            externalised = {j for j, iid in enumerate(ids) if ("/state/%s.json" % iid) in w.fs.files}
            if case["save_route"] == "save_state":
                # the whole-server save writes every instance that has a session, stepped or not
                externalised |= {j for j in range(len(ids)) if state_before[j] is not None}
                if any(state_before[j] is not None and not state_before[j].get("results_log") for j in range(len(ids))):
                    res.probe("unstepped_session_saved_by_save_state")
            if case.get("diverge") and cno == 0 and route in ("load_state", "restart"):
                # the live instance moves away from what was saved through requests that do not write to the adapter
                # (a session ended, another one begun but not stepped): loading brings the SAVED session back
                res.probe("live_instance_diverged_from_saved")
                for j, iid in enumerate(ids):
                    if j not in externalised:
                        continue
                    if case["diverge"] == "end":
                        w.post("/%s/end-session" % iid)
                    else:
                        w.post("/%s/begin-session" % iid, {"scenario_managers": [MGR], "scenarios": ["base", "alt"],
                                                           "equations": [T_first_eq(cfg)], "settings": {}})
            # ---- load
            if route == "timeout":
                w.clock.advance(31 * 10**6)
                w.get("/metrics", auth=False)
                res.probe("loaded_via_timeout")
            elif route == "timeout_then_save_state":
                # the instances leave memory first, THEN somebody saves the whole server (which now holds nothing, or only
                # a fresh instance): the externalised state of the evicted instances must survive that
                w.clock.advance(31 * 10**6)
                w.get("/metrics", auth=False)
                if rng_bit(case):
                    rr = w.post("/start-instance", {"timeout": {"minutes": 5}})
                    try:
                        w.post("/%s/begin-session" % rr.body["instance_uuid"], {"scenario_managers": [MGR], "scenarios": ["base"],
                                                                               "equations": [T_first_eq(cfg)]})
                    except Exception:
                        pass
                w.get("/save-state")
                res.probe("save_state_after_eviction")
            elif route == "load_state":
                r = w.post("/load-state")
                res.probe("loaded_via_load_state")
                if r.status != 200:
                    res.violate("C19.3-request-failed-with-adapter", {"op": "load-state", "status": r.status})
            else:
                w.crash()
                w.boot()
                res.probe("loaded_via_restart")
            log.add("load", route)
            # ---- after
            for j, iid in enumerate(ids):
                if j not in externalised or state_before[j] is None:
                    continue
                nsteps = len(state_before[j].get("results_log", {}))
                after = observe(iid)
                b = w.bptk_of(iid)
                restored = norm(copy.deepcopy(b.session_state)) if b is not None and b.session_state else None
                compared[0] += 1 if nsteps >= 2 else 0
                if after != before[j]:
                    res.violate("C19.1-results-differ-after-restore", {"inst": j, "route": route, "adapter": cfg["adapter"],
                                                                       "start": cfg["model"]["start"], "dt": cfg["model"]["dt"],
                                                                       "before": str(before[j][1])[:240], "after": str(after[1])[:240]})
                if restored is None:
                    res.violate("C19.2-session-state-differs", {"inst": j, "field": "<whole state missing>", "route": route})
                else:
                    sb, sa = _strip(state_before[j]), _strip(restored)
                    for field in sorted(set(sb) | set(sa)):
                        if sb.get(field) != sa.get(field):
                            res.violate("C19.2-session-state-differs", {"inst": j, "field": field, "route": route, "adapter": cfg["adapter"],
                                                                        "before": str(sb.get(field))[:200], "after": str(sa.get(field))[:200]})
                            break

        cycle(0)
        served0 = {}
        if case.get("more") and not res.violations:
            for j, iid in enumerate(ids):
                r0_ = w.get("/%s/session-results" % iid)
                served0[j] = r0_.body if r0_.status == 200 else None
        if case.get("more") and not res.violations:
            # a second save/load cycle on the SAME server and adapter object: the restored sessions are stepped further
            # (each step is saved again), then leave memory / are reloaded again
            res.probe("second_save_load_cycle")
            for j, iid in enumerate(ids):
                for o in case["more"]:
                    if o["op"] == "step":
                        r = w.post("/%s/run-step" % iid, {"settings": o["settings"]})
                    else:
                        r = w.post("/%s/run-steps" % iid, {"settings": o["settings"], "numberSteps": o["n"]})
                    log.add("more", j, o["op"], r.status)
            if cfg["model"].get("noise"):
                res.probe("stochastic_element_in_restored_session")
            # what was served for the steps taken before the restore is still what is served for them after further steps
            for j, iid in enumerate(ids):
                if not isinstance(served0.get(j), dict) or res.violations:
                    continue
                now_ = w.get("/%s/session-results" % iid)
                if now_.status != 200 or not isinstance(now_.body, dict):
                    continue
                for (path_, v0) in _leaves(served0[j]):
                    cur = now_.body
                    try:
                        for k_ in path_:
                            cur = cur[k_]
                    except Exception:
                        cur = "<missing>"
                    if cur != v0 and not (cfg["adapter"] == "compressed"):
                        res.violate("C19.1-results-differ-after-restore", {"inst": j, "route": "restored, then stepped further", "adapter": cfg["adapter"],
                                                                           "entry": list(path_), "before": v0, "after": cur})
                        break
            cycle(1)
    res.nontrivial = compared[0] > 0
    res.digest = log.digest()
    return res


def _leaves(d, pre=()):
    out = []
    if isinstance(d, dict):
        for k_, v in d.items():
            out += _leaves(v, pre + (k_,))
    else:
        out.append((pre, d))
    return out


def _strip(st):
    if st is None:
        return None
    return {k: v for k, v in st.items() if k != "lock"}


def shrink(case):
    if len(case["instances"]) > 1:
        for j in range(len(case["instances"])):
            c = copy.deepcopy(case)
            c["instances"].pop(j)
            yield c
    for j, inst in enumerate(case["instances"]):
        for cand in shrink_list(inst["ops"][1:]):
            c = copy.deepcopy(case)
            c["instances"][j]["ops"] = [copy.deepcopy(inst["ops"][0])] + copy.deepcopy(cand)
            yield c
        for n, o in enumerate(inst["ops"]):
            if o.get("settings"):
                c = copy.deepcopy(case)
                c["instances"][j]["ops"][n]["settings"] = {}
                yield c
    if case.get("more"):
        c = copy.deepcopy(case)
        c["more"] = None
        yield c
    if case.get("cross_pair"):
        c = copy.deepcopy(case)
        c.pop("cross_pair")
        yield c
    if case.get("diverge"):
        c = copy.deepcopy(case)
        c["diverge"] = None
        yield c
    for route in ("restart", "load_state"):
        if case["load_route"] != route:
            c = copy.deepcopy(case)
            c["load_route"] = route
            yield c
    if case["save_route"] != "auto":
        c = copy.deepcopy(case)
        c["save_route"] = "auto"
        yield c
    m = case["config"]["model"]
    if m["dt"] != 1.0 or m["start"] != 1.0:
        c = copy.deepcopy(case)
        n = round((m["stop"] - m["start"]) / m["dt"])
        c["config"]["model"]["dt"] = 1.0
        c["config"]["model"]["start"] = 1.0
        c["config"]["model"]["stop"] = 1.0 + n
        yield c


def _all_ops(case):
    return _flat([o for inst in case["instances"] for o in inst["ops"]]) + list(case.get("more") or []) \
        + ([{"op": "step", "settings": case["cross_pair"].get("uniform") or {}}] if case.get("cross_pair") else [])


def trigger(case, v, f):
    t = f["trigger"]["kind"]
    comp = case["config"]["adapter"] == "compressed"
    m = case["config"]["model"]
    if t == "compressed_and_grid_not_1_1":
        return comp and (m["start"] != 1.0 or m["dt"] != 1.0)
    if t == "compressed_and_nonuniform_settings":
        more = list(case.get("more") or [])
        if case.get("cross_pair"):
            more.append({"op": "step", "settings": case["cross_pair"].get("uniform") or {}})
        return comp and any(len(_settings_shapes(i["ops"] + more) - set()) > 1 or "EMPTY" in _settings_shapes(i["ops"] + more) or "NONE" in _settings_shapes(i["ops"] + more)
                            for i in case["instances"])
    if t == "compressed_and_step_without_body":
        return comp and any(o["op"] == "step" and o.get("settings", 0) is None for o in _all_ops(case))
    return False


def neutralise(case, v, f):
    c = copy.deepcopy(case)
    c["config"]["adapter"] = "plain"
    return c
