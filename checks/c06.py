"""C06  Scenarios are isolated from each other and from the model they were created from.

scenario-world: one bptk, 1-3 base models, 1-3 scenario managers (several may be registered
from the SAME base Model object), 2-3 scenarios each.  A generated operation history (run,
begin_session with settings, run_step with settings, end_session, REST /run with settings,
reset_scenario_cache, add scenario) is applied; after EVERY operation every scenario must equal
a freshly built model carrying exactly that scenario's settings, and every base model must
still equal its own definition.
"""
import copy
import random

from sim.core import EventLog, RunResult, derive_seed
from sim import patches
from checks.common import shrink_list
from models import sd_templates as T
from worlds.scenario_world import ScenarioWorld

PROPERTY = "C06"
LEVEL = "exploration"
SIM_UNIT = "operations"
CHUNK = 6
RULE = ("a run = one operation history (5-15 operations: run / begin_session with settings / run_step with or without "
        "settings / end_session / REST run with settings / reset cache / add scenario) over 1-3 base models, 1-3 managers "
        "(possibly sharing a base model object) and 2-3 scenarios each, with every scenario and every base model observed "
        "after every operation; non-trivial = at least two scenarios exist that share a base model object and at least one "
        "operation re-parameterised or stepped one of them; distinct = distinct event-log digest")
REAL = ["BPTK_Py.scenariomanager.scenario_manager_hybrid (deep copy per scenario) + HybridRunner for the hybrid leg", "BPTK_Py.bptk (register_scenario_manager, register_scenarios, run_scenarios, begin_session, run_step, end_session, reset_scenario_cache)",
        "BPTK_Py.scenariomanager (ScenarioManagerSd.get_cloned_model, SimulationScenario)", "BPTK_Py.scenariorunners.sd_runner",
        "BPTK_Py.sdsimulation", "BPTK_Py.server.bptkServer (/run)", "BPTK_Py.modeling.model + SD DSL", "pandas"]
STUB = ["SdSimulation worker threads run serially (the models are deterministic; schedules of these threads are C08's subject)",
        "HTTP transport (werkzeug test client)"]
ASSUMPTIONS = ["after a session passed step-level settings for an element to a scenario, that scenario's OWN results are not judged until it is explicitly re-parameterised for that element (the property does not say whether step settings outlive the session); all other scenarios and the base models stay under the oracle",
               "the fresh-model oracle shares the DSL core with the system (its correctness is C01, not claimed)"]
FAULT_KINDS = []
PROBES = ["hybrid_sibling_stepped_in_a_session", "hybrid_scenarios_with_lookup_properties", "session_over_scenarios_on_different_grids", "observed_together_with_sibling", "sibling_on_another_grid", "hybrid_manager", "managers_share_base_object", "points_setting", "runspec_setting", "step_level_setting", "rest_run_setting", "session_left_open",
          "scenario_added_later", "session_with_foreign_operations", "step_settings_expire_with_the_session", "sparse_observation", "rest_run_over_two_scenarios", "point_edited_in_place", "session_over_two_managers", "scenario_registered_again", "run_over_two_managers", "name_known_to_one_manager_only"]
EXHAUSTIVE = {"quick": False, "thorough": False}

VALS = [0.0, 0.5, 1.5, 2.0, 3.0, 7.0]


def gen_settings(rng, template, base, allow_runspecs=True, allow_strings=False, partial_runspecs=False):
    s = {}
    r = rng.random()
    cs = T.CONSTANTS[template]
    if r < 0.75:
        s["constants"] = {}
        for c in rng.sample(cs, rng.randint(1, len(cs))):
            v = rng.choice(VALS)
            s["constants"][c] = str(v) if allow_strings and rng.random() < 0.2 else v
            if allow_strings and c != "init" and rng.random() < 0.08:
                # a string is an expression, and an expression may refer to the time t
                s["constants"][c] = rng.choice(["0.5*t", "2.0 if t < 3 else 5.0", "t - 1.0"])
    if T.TABLES[template] and rng.random() < 0.5:
        s["points"] = {}
        for tb in rng.sample(T.TABLES[template], rng.randint(1, len(T.TABLES[template]))):
            pts = [[0.0, rng.choice([0.5, 1.0, 2.0])], [rng.choice([3.0, 5.0]), rng.choice([0.0, 4.0])], [20.0, rng.choice([1.0, 3.0])]]
            s["points"][tb] = str(pts) if allow_strings and rng.random() < 0.2 else pts
    if allow_runspecs and allow_runspecs != "full" and rng.random() < 0.12:
        # a LATER setting that names only the stop time (an integer beyond every start time in use, so it is on every grid):
        # start time and dt stay what the scenario has
        s["runspecs"] = {"stoptime": rng.choice([6.0, 8.0, 9.0])}
    elif allow_runspecs and rng.random() < 0.3:
        dt = rng.choice([1.0, 0.5, 0.25, 0.1, 0.2, 2.0])        # (decimal steps too: (0.3 - 0) / 0.1 is 2.9999999999999996 in floating point)
        # (a start time need not be a multiple of dt: start 1 with dt 2, start 0.5 with dt 1 - the grid is start + k*dt)
        start = base["start"] + rng.choice([0.0, 0.0, 1.0, 2.0, 0.5, 0.5])
        n = rng.choice([3, 4, 6, 7])
        # a partial override is relative to the base model's run spec, which only holds at registration;
        # later settings override all three so that the stop time stays on the grid
        which = rng.sample(["starttime", "stoptime", "dt"], rng.randint(1, 3)) if partial_runspecs else ["starttime", "stoptime", "dt"]
        rs = {}
        # keep the stop time on the grid of (start, dt) whatever subset is overridden
        st = start if "starttime" in which else base["start"]
        d = dt if "dt" in which else base["dt"]
        if "starttime" in which:
            rs["starttime"] = st
        if "dt" in which:
            rs["dt"] = d
        rs["stoptime"] = round(st + d * n, 6)       # a decimal literal, as somebody would write it
        s["runspecs"] = rs
    return s


def gen_config(rng):
    nb = rng.choice([1, 1, 2, 3])
    bases = []
    for j in range(nb):
        tpl = rng.choice(["T1", "T2", "T2", "T3"])
        start = rng.choice([0.0, 1.0])
        dt = rng.choice([1.0, 0.5, 0.25])
        bases.append({"template": tpl, "start": start, "stop": start + dt * rng.choice([4, 6, 8]), "dt": dt, "name": "base%d" % j})
    nm = rng.choice([1, 2, 2, 3])
    managers = []
    for i in range(nm):
        bj = rng.randrange(nb) if rng.random() < 0.5 else 0
        b = bases[bj]
        m = {"name": "sm%d" % i, "base": bj, "scenarios": {}}
        if rng.random() < 0.35:
            bs = gen_settings(rng, b["template"], b, allow_runspecs=False)
            if "constants" in bs:
                m["base_constants"] = bs["constants"]
            if "points" in bs:
                m["base_points"] = bs["points"]
        for k in range(rng.choice([2, 2, 3])):
            m["scenarios"]["sc%d" % k] = {} if rng.random() < 0.3 else gen_settings(rng, b["template"], b, partial_runspecs=True)
        if rng.random() < 0.5:
            # a name that no other manager has (a run over several managers that asks for it concerns this manager only)
            m["scenarios"]["u%d" % i] = {} if rng.random() < 0.3 else gen_settings(rng, b["template"], b, partial_runspecs=True)
        managers.append(m)
    return {"bases": bases, "managers": managers}


def plan(tier, verif_seed):
    n = 640 if tier == "quick" else 10**9
    for i in range(n):
        yield {"i": i, "seed": derive_seed(verif_seed, PROPERTY, i), "keep_sample": i < 1}


def generate_hybrid(rng):
    """hybrid / ABM leg: scenarios of one ScenarioManagerHybrid are deep copies of one model object"""
    from worlds import abm_world as W
    scs = [W.gen_scenario(rng, allow_zero_stop=False, small=True) for _ in range(rng.choice([2, 2, 3]))]
    for sc in scs:
        sc["init"] = [["a", rng.choice([1, 2, 4])], ["b", rng.choice([0, 1, 3])]]
    names = ["s%d" % n for n in range(len(scs))]
    ops = []
    lookups = None
    if rng.random() < 0.5:
        # the model carries a graphical function; some scenarios replace it through a Lookup-type property (at registration or later)
        lookups = [rng.choice([None, [[0.0, float(2 + n)], [10.0, float(5 * (n + 1))]]]) for n in range(len(scs))]
    for _ in range(rng.randint(3, 7)):
        r = rng.random()
        if r < 0.6:
            ops.append({"op": "run", "scenarios": rng.sample(names, rng.randint(1, len(names)))})
        elif lookups is not None and r < 0.8:
            ops.append({"op": "set_lookup", "scenario": rng.choice(names), "points": [[0.0, rng.choice([7.0, 9.0])], [10.0, rng.choice([0.0, 3.0])]]})
        elif r < 0.85:
            # one scenario is stepped in a session of its own (one or two steps, then the session is ended): its siblings that
            # have run keep their results, and a later request for them is answered
            ops.append({"op": "session_steps", "scenario": rng.choice(names), "n": rng.choice([1, 2])})
        else:
            ops.append({"op": "reset_cache", "scenario": rng.choice(names)})
    return {"property": PROPERTY, "kind": "hybrid", "scenarios": scs, "ops": ops, "lookups": lookups}


def execute_hybrid(case, prop="C06"):
    from sim.core import canon
    from worlds import abm_world as W
    log = EventLog()
    res = RunResult()
    scs = case["scenarios"]
    names = ["s%d" % n for n in range(len(scs))]
    log.add("case", case["ops"])
    with patches.installed(threads="serial", global_thread=True):
        solo = {}
        solo_has_output = {}
        for n, sc in enumerate(scs):
            b1, ms = W.build_bptk([sc])
            o1 = b1.run_scenarios(scenarios=["s0"], scenario_managers=["smAbm"], agents=["a", "b"], agent_states=["idle"], series_names={}, return_format="dict")
            solo[names[n]] = canon({repr(t): v for t, v in ms[0].statistics().items()})
            solo_has_output[names[n]] = isinstance(o1, dict) and "s0" in o1.get("smAbm", {})
            b1.destroy()
        lookups = case.get("lookups")
        b, models = W.build_bptk(scs, lookups=lookups)
        state = {nm: "fresh" for nm in names}
        res.probe("hybrid_manager")
        tbl = None
        if lookups is not None:
            res.probe("hybrid_scenarios_with_lookup_properties")
            tbl = {nm: ([list(x) for x in lookups[n]] if lookups[n] is not None else [list(x) for x in W.BASE_TBL]) for n, nm in enumerate(names)}

        def check_tables(k, op):
            """every scenario reads ITS table (the one its Lookup property gave it, else the model's), the registered model its own"""
            if tbl is None:
                return True
            for n, nm in enumerate(names):
                got = models[n].points.get("tbl")
                if got is None or [list(x) for x in got] != tbl[nm]:
                    res.violate(prop + ".other-scenario-changed", {"scenario": nm, "after_op": op, "op_index": k, "graphical_function": "tbl",
                                                                   "got": got, "expected": tbl[nm]})
                    return False
                try:
                    v = float(models[n]._lookup(5.0, "tbl"))      # (what sd.lookup(x, "tbl") calls)
                except Exception as e:
                    v = "exc:" + type(e).__name__
                want = (tbl[nm][0][1] + tbl[nm][1][1]) / 2.0
                if v != want:
                    res.violate(prop + ".other-scenario-changed", {"scenario": nm, "after_op": op, "op_index": k, "lookup(5.0)": v, "expected": want})
                    return False
            got = b._verif_base_model.points.get("tbl")
            if got is None or [list(x) for x in got] != [list(x) for x in W.BASE_TBL]:
                res.violate(prop + ".base-model-changed", {"after_op": op, "op_index": k, "graphical_function": "tbl", "got": got})
                return False
            return True
        check_tables(-1, None)
        for k, op in enumerate(case["ops"]):
            log.add("op", k, op)
            try:
                if op["op"] == "run":
                    out = b.run_scenarios(scenarios=list(op["scenarios"]), scenario_managers=["smAbm"], agents=["a", "b"], agent_states=["idle"],
                                          series_names={}, return_format="dict")
                    first_run = [nm for nm in op["scenarios"] if state[nm] in ("fresh", "ran")]
                    for nm in op["scenarios"]:
                        state[nm] = "ran" if state[nm] in ("fresh", "ran") else "reran"
                    # a scenario run for the first time reports what it reports when it is run alone (a re-run after a cache
                    # reset continues from the agents' current state and is not compared)
                    missing = [nm for nm in first_run if solo_has_output[nm] and (not isinstance(out, dict) or nm not in out.get("smAbm", {}))]
                    missing += [nm for nm in op["scenarios"] if state[nm] == "ran" and nm not in first_run and solo_has_output[nm]
                                and (not isinstance(out, dict) or nm not in out.get("smAbm", {}))]
                    if missing:
                        res.violate(prop + ".hybrid-no-results", {"op": op, "missing": missing, "op_index": k})
                        break
                elif op["op"] == "session_steps":
                    res.probe("hybrid_sibling_stepped_in_a_session")
                    b.begin_session(scenarios=[op["scenario"]], scenario_managers=["smAbm"], agents=["a", "b"], agent_states=["idle"])
                    for _ in range(op["n"]):
                        b.run_step()
                    b.end_session()
                    # (begin/end of a session reset that scenario's cache: it is judged again once it has been re-run)
                    state[op["scenario"]] = "reset" if state[op["scenario"]] != "fresh" else "fresh"
                    if state[op["scenario"]] == "fresh":
                        state[op["scenario"]] = "reset"
                elif op["op"] == "set_lookup":
                    # what REST /run does with settings.<manager>.<scenario>.properties
                    if tbl is not None:
                        b.get_scenario("smAbm", op["scenario"]).configure_properties({"tbl": {"type": "Lookup", "value": [list(x) for x in op["points"]]}})
                        tbl[op["scenario"]] = [list(x) for x in op["points"]]
                else:
                    b.reset_scenario_cache(scenario_manager="smAbm", scenario=op["scenario"])
                    state[op["scenario"]] = "reset" if state[op["scenario"]] != "fresh" else "fresh"
                if not res.violations and not check_tables(k, op):
                    break
            except Exception as e:
                res.violate(prop + ".operation-raised", {"op": op, "exception": type(e).__name__, "message": str(e)[:120]})
                break
            for n, nm in enumerate(names):
                stats = canon({repr(t): v for t, v in models[n].statistics().items()})
                if state[nm] == "ran" and stats != solo[nm]:
                    res.violate(prop + ".other-scenario-changed", {"scenario": nm, "after_op": op, "op_index": k, "times_reported": sorted(stats)[:6],
                                                                   "times_alone": sorted(solo[nm])[:6]})
                    break
                if state[nm] in ("fresh", "reset") and stats:
                    res.violate(prop + ".other-scenario-changed", {"scenario": nm, "after_op": op, "op_index": k, "unexpected_statistics_for_times": sorted(stats)[:6]})
                    break
            if res.violations:
                break
            if state.get(op.get("scenario")) == "reset":
                state[op["scenario"]] = "reran_pending"
            for nm in names:
                if state[nm] == "reran_pending" and op["op"] == "run" and nm in op.get("scenarios", []):
                    state[nm] = "reran"
        try:
            b.destroy()
        except Exception:
            pass
    res.sim_units = len(case["ops"])
    res.nontrivial = len(scs) >= 2
    res.digest = log.digest()
    return res


def generate(spec):
    rng = random.Random(spec["seed"])
    if rng.random() < 0.2:
        return generate_hybrid(rng)
    cfg = gen_config(rng)
    keys = [(m["name"], s) for m in cfg["managers"] for s in m["scenarios"]]
    tpl_of = {m["name"]: cfg["bases"][m["base"]]["template"] for m in cfg["managers"]}
    base_of = {m["name"]: cfg["bases"][m["base"]] for m in cfg["managers"]}
    ops = []
    in_session = None
    added = 0
    for _ in range(rng.randint(5, 15)):
        r = rng.random()
        if in_session is not None and r < 0.55:
            mgrs_, scs = in_session
            mgr = rng.choice(mgrs_)
            rr = rng.random()
            if rr < 0.45:
                sc = rng.choice([s_ for s_ in scs if (mgr, s_) in keys] or scs)
                st = gen_settings(rng, tpl_of[mgr], base_of[mgr], allow_runspecs=False)
                ops.append({"op": "run_step", "settings": {mgr: {sc: st}}})
            elif rr < 0.8:
                ops.append({"op": "run_step", "settings": rng.choice([{}, None])})
            else:
                ops.append({"op": "end_session"})
                in_session = None
            continue
        if in_session is not None:
            r = rng.random()        # (r was >= 0.55 here: without a new draw no batch run would ever happen inside a session)
            if r < 0.5 and r >= 0.25:
                r = 0.1             # a second begin_session inside a session stays rare
        if r < 0.25:
            mgr = rng.choice([m["name"] for m in cfg["managers"]])
            scs = [s for (m, s) in keys if m == mgr]
            sel = rng.sample(scs, rng.randint(1, len(scs)))
            mgrs = [mgr]
            same_tpl = [m["name"] for m in cfg["managers"] if m["name"] != mgr and tpl_of[m["name"]] == tpl_of[mgr]]
            if same_tpl and rng.random() < 0.4:
                # one call over two managers; a name that only ONE of them has is run for that one and must leave the
                # other manager alone (a scenario added later is such a name)
                mgrs = [mgr, rng.choice(same_tpl)]
                only_here = [s_ for s_ in scs if (mgrs[1], s_) not in keys]
                if only_here and rng.random() < 0.7:
                    sel = [rng.choice(only_here)]
                if rng.random() < 0.5:
                    mgrs.reverse()
            ops.append({"op": "run", "managers": mgrs, "scenarios": sel,
                        "equations": rng.sample(T.ELEMENTS[tpl_of[mgr]], rng.randint(1, 3)), "format": rng.choice(["df", "dict", "json"])})
        elif r < 0.50:
            mgr = rng.choice([m["name"] for m in cfg["managers"]])
            scs = [s for (m, s) in keys if m == mgr]
            sel = rng.sample(scs, rng.randint(1, min(2, len(scs))))
            settings = {}
            smgrs = [mgr]
            twins = [m["name"] for m in cfg["managers"] if m["name"] != mgr and m["base"] == [x for x in cfg["managers"] if x["name"] == mgr][0]["base"]]
            if twins and rng.random() < 0.35:
                # one session over two managers of the same model with same-named scenarios: settings are per manager
                tw = rng.choice(twins)
                both = [s_ for s_ in scs if (tw, s_) in keys]
                if both:
                    sel = rng.sample(both, rng.randint(1, min(2, len(both))))
                    smgrs = [mgr, tw]
                    if rng.random() < 0.5:
                        smgrs.reverse()
            if rng.random() < 0.7:
                sm_ = rng.choice(smgrs)
                settings = {sm_: {rng.choice([s_ for s_ in sel if (sm_, s_) in keys] or sel): gen_settings(rng, tpl_of[sm_], base_of[sm_])}}
            ops.append({"op": "begin_session", "managers": smgrs, "scenarios": sel, "settings": settings,
                        "equations": rng.sample(T.ELEMENTS[tpl_of[mgr]], rng.randint(1, 3))})
            in_session = (smgrs, sel)
        elif r < 0.70:
            mgr, sc = rng.choice(keys)
            ops.append({"op": "rest_run", "manager": mgr, "scenario": sc,
                        "settings": {mgr: {sc: gen_settings(rng, tpl_of[mgr], base_of[mgr])}},
                        "equations": rng.sample(T.ELEMENTS[tpl_of[mgr]], rng.randint(1, 2))})
            sibs = [s_ for (m_, s_) in keys if m_ == mgr and s_ != sc]
            if sibs and rng.random() < 0.35:
                # one request re-parameterises two scenarios of the manager
                sc2 = rng.choice(sibs)
                ops[-1]["also"] = sc2
                ops[-1]["settings"][mgr][sc2] = gen_settings(rng, tpl_of[mgr], base_of[mgr])
                if rng.random() < 0.5:
                    ops[-1]["settings"][mgr] = dict(reversed(list(ops[-1]["settings"][mgr].items())))
        elif r < 0.76:
            mgr, sc = rng.choice(keys)
            ops.append({"op": "reset_cache", "manager": mgr, "scenario": sc})
        elif r < 0.82:
            # one point of a graphical function edited in place on ONE scenario's model (the way a dashboard slider does it):
            # nobody else's table moves
            mgr, sc = rng.choice(keys)
            tabs = T.TABLES.get(tpl_of[mgr]) or []
            if tabs and not (in_session and mgr in in_session[0] and sc in in_session[1]):
                ops.append({"op": "poke_point", "manager": mgr, "scenario": sc, "table": rng.choice(tabs), "index": rng.choice([0, 1, -1]),
                            "y": rng.choice([0.5, 3.0, 50.0])})
            else:
                ops.append({"op": "reset_cache", "manager": mgr, "scenario": sc})
        elif r < 0.92 and added < 2:
            mgr = rng.choice([m["name"] for m in cfg["managers"]])
            name = "late%d" % added
            added += 1
            again = [s_ for (m_, s_) in keys if m_ == mgr and not (in_session and mgr in in_session[0] and s_ in in_session[1])]
            if again and rng.random() < 0.45:
                # the same name registered again with another definition: what the new definition does not mention is gone
                name = rng.choice(again)
            ops.append({"op": "add_scenario", "manager": mgr, "name": name, "dict": gen_settings(rng, tpl_of[mgr], base_of[mgr], partial_runspecs=True)})
            if (mgr, name) not in keys:
                keys.append((mgr, name))
        else:
            ops.append({"op": "end_session"})
            in_session = None
    return {"property": PROPERTY, "config": cfg, "ops": ops, "observe": rng.choice(["each", "each", "sparse"])}


def apply_op(w, op, res):
    """returns the set of scenario keys the operation addressed"""
    b = w.bptk
    kind = op["op"]
    touched = set()
    if kind == "run":
        b.run_scenarios(scenarios=list(op["scenarios"]), scenario_managers=list(op["managers"]), equations=list(op["equations"]),
                        series_names={}, return_format=op["format"])
        touched = {(m, s) for m in op["managers"] for s in op["scenarios"]}
        if len(op["managers"]) > 1:
            res.probe("run_over_two_managers")
            if any((m, s) not in w.shadow for (m, s) in touched):
                res.probe("name_known_to_one_manager_only")
    elif kind == "begin_session":
        if op["settings"]:
            b.begin_session(scenarios=list(op["scenarios"]), scenario_managers=list(op["managers"]), settings=copy.deepcopy(op["settings"]),
                            equations=list(op["equations"]))
        else:
            # no settings: the argument is left out, as a caller would (the default must behave like an empty dictionary of one's own)
            b.begin_session(scenarios=list(op["scenarios"]), scenario_managers=list(op["managers"]), equations=list(op["equations"]))
        w.apply_settings_shadow(op["settings"])
        touched = {(m, s) for m in op["managers"] for s in op["scenarios"]}
        if len(op["managers"]) > 1:
            res.probe("session_over_two_managers")
        for m, scs in op["settings"].items():
            for s, st in scs.items():
                if "points" in st:
                    res.probe("points_setting")
                if "runspecs" in st:
                    res.probe("runspec_setting")
        w.session = touched
        w.session_grid = {k: (w.shadow[k]["start"], w.shadow[k]["stop"], w.shadow[k]["dt"]) for k in touched if k in w.shadow}
    elif kind == "run_step":
        if op["settings"]:
            res.probe("step_level_setting")
            w.apply_settings_shadow(op["settings"], step_level=True)
        out = b.run_step(settings=copy.deepcopy(op["settings"]))
        w.step_outputs.append(out)
        touched = set(getattr(w, "session", set()))
    elif kind == "end_session":
        b.end_session()
        touched = set(getattr(w, "session", set()))
        for key in touched:
            sh = w.shadow.get(key)
            if sh is not None and sh["tainted"]:
                # what a step changed and the scenario itself declares goes back to the declared value with the next run or
                # session (the runner re-applies the scenario's constants and points); only what the scenario does not
                # declare stays as the step left it
                # (a table that was edited in place on the scenario's model is model-level state, not something the scenario declares)
                sh["tainted"] -= ((set(sh["constants"]) | set(sh["points"])) - set(sh.get("poked", ())))
                res.probe("step_settings_expire_with_the_session")
        w.session = set()
    elif kind == "rest_run":
        res.probe("rest_run_setting")
        names = [op["scenario"]] + ([op["also"]] if op.get("also") else [])
        status, body = w.rest_run({"scenario_managers": [op["manager"]], "scenarios": names, "equations": list(op["equations"]),
                                   "settings": copy.deepcopy(op["settings"])})
        if status != 200:
            res.violate("C06.rest-run-failed", {"status": status, "op": op})
        w.apply_settings_shadow(op["settings"])
        touched = {(op["manager"], n_) for n_ in names}
        if op.get("also"):
            res.probe("rest_run_over_two_scenarios")
    elif kind == "reset_cache":
        b.reset_scenario_cache(scenario_manager=op["manager"], scenario=op["scenario"])
        touched = {(op["manager"], op["scenario"])}
    elif kind == "poke_point":
        key = (op["manager"], op["scenario"])
        sh = w.shadow.get(key)
        touched = {key}
        if sh is not None and op["table"] not in sh["points"] and key not in getattr(w, "session", set()):
            # (a table the scenario itself overrides is re-applied from the scenario's settings at every run: not poked)
            sc_obj = b.get_scenario(op["manager"], op["scenario"])
            table = sc_obj.model.points[op["table"]]
            table[op["index"]][1] = op["y"]
            b.reset_scenario_cache(scenario_manager=op["manager"], scenario=op["scenario"])
            sh["points"][op["table"]] = [list(p_) for p_ in table]
            sh.setdefault("poked", set()).add(op["table"])
            res.probe("point_edited_in_place")
    elif kind == "add_scenario":
        res.probe("scenario_registered_again" if (op["manager"], op["name"]) in w.shadow else "scenario_added_later")
        w.add_scenario(op["manager"], op["name"], op["dict"])
        touched = {(op["manager"], op["name"])}
    else:
        raise ValueError(kind)
    return touched


def _normalise(case):
    """A session that lists a manager owning none of its scenario names makes bptk step ALL scenarios of that manager
    (an empty name list means "all" in ScenarioManagerFactory.get_scenarios).  That quirk is outside the property; the
    generator never produces it, the shrinker could (by dropping the operation that added a name): such a manager is
    taken off the list, here and therefore identically in every replay."""
    have = {m["name"]: set(m["scenarios"]) for m in case["config"]["managers"]}
    out = copy.deepcopy(case)
    for op in out["ops"]:
        if op["op"] == "add_scenario":
            have.setdefault(op["manager"], set()).add(op["name"])
        elif op["op"] in ("begin_session", "run") and len(op.get("managers", [])) > 1 and op["op"] == "begin_session":
            keep = [m for m in op["managers"] if have.get(m, set()) & set(op["scenarios"])]
            op["managers"] = keep or op["managers"][:1]
    return out


def execute(case, prop="C06"):
    if case.get("kind") == "hybrid":
        return execute_hybrid(case, prop)
    case = _normalise(case)
    log = EventLog()
    res = RunResult()
    with patches.installed(threads="serial"):
        w = ScenarioWorld(case["config"], log, res)
        w.setup()
        run_history(w, case, res, log, prop)
    res.digest = log.digest()
    return res


def run_history(w, case, res, log, prop, twin_factory=None):
    if True:
        w.session = set()
        w.session_grid = {}
        w.step_outputs = []
        shared = len(set(w.mgr_base.values())) < len(w.mgr_base)
        if shared:
            res.probe("managers_share_base_object")
        changed = False

        def observe_all(where, touched):
            for key in sorted(w.shadow):
                before = len(res.violations)
                sh = w.shadow[key]
                if key in getattr(w, "session", set()):
                    continue        # a scenario inside an open session is observed through its step results (twin clause below)
                if sh["tainted"]:
                    # still an operation (it runs the scenario), but its own results are not judged
                    w.observe(key)
                    continue
                ok = w.check_scenario(key, where)
                for v in res.violations[before:]:
                    base = v.clause
                    v.clause = prop + (".other-scenario-changed" if key not in touched and where != "initial" else ".scenario-differs-from-fresh-model") \
                        + ("" if base == "value-differs" else "-" + base)
                    v.detail["op"] = case["ops"][where] if isinstance(where, int) else where
                if not ok:
                    return False
            for j in range(len(w.bases)):
                before = len(res.violations)
                ok = w.check_base(j, where)
                for v in res.violations[before:]:
                    v.clause = prop + "." + v.clause
                    v.detail["op"] = case["ops"][where] if isinstance(where, int) else where
                if not ok:
                    return False
            return True

        # observing a scenario RUNS it, and a run is an operation too (it writes the scenario's settings into its model): in
        # "sparse" histories nothing is observed before the first operation and only every third operation is followed by an
        # observation (plus the last one)
        sparse = case.get("observe") == "sparse"
        if sparse:
            res.probe("sparse_observation")
        ok = True if sparse else observe_all("initial", set())
        n = -1
        if ok:
            for n, op in enumerate(case["ops"]):
                log.add("op", n, op)
                try:
                    touched = apply_op(w, op, res)
                except Exception as e:
                    res.violate(prop + ".operation-raised", {"op": op, "exception": type(e).__name__, "message": str(e)[:120]})
                    break
                if op["op"] in ("begin_session", "run_step", "rest_run", "add_scenario"):
                    changed = True
                if op["op"] == "run_step" and w.step_outputs and isinstance(w.step_outputs[-1], dict) and "msg" not in w.step_outputs[-1]:
                    # the step results of a session are results of the scenario too: with its declared settings (no step-level
                    # settings so far) they equal the freshly built model at that time
                    out = w.step_outputs[-1]
                    for key in sorted(w.session):
                        sh = w.shadow.get(key)
                        if sh is None or sh["tainted"]:
                            continue
                        node = out.get(key[0], {}).get(key[1])
                        if not isinstance(node, dict):
                            continue
                        fresh = w.fresh_for(key)
                        # the run specs the scenario had when the session was begun (later changes do not move a running session)
                        g0 = w.session_grid.get(key, (sh["start"], sh["stop"], sh["dt"]))
                        own_grid = set(T.label(x) for x in T.grid(*g0))
                        # a session over scenarios on DIFFERENT grids steps on a compromise clock (latest start, dt 1): a scenario
                        # may then be asked at times that are not on its own grid - nothing is prescribed for those
                        mixed = len({(g_[0], g_[2]) for g_ in w.session_grid.values()}) > 1
                        for el, tv in node.items():
                            for t, v in tv.items():
                                if float(t) not in own_grid and mixed:
                                    res.probe("session_over_scenarios_on_different_grids")
                                    continue
                                if float(t) not in own_grid:
                                    # a session steps on the grid of its scenarios (with the run specs its settings gave them)
                                    res.violate(prop + ".scenario-differs-from-fresh-model-grid-differs",
                                                {"scenario": list(key), "element": el, "t": float(t), "via": "session run_step", "op_index": n,
                                                 "runspec_at_begin": list(g0)})
                                    break
                                try:
                                    fv = fresh.evaluate_equation(el, float(t)) if hasattr(fresh, "evaluate_equation") else fresh.equation(el, float(t))
                                except Exception:
                                    continue
                                if not T.close(v, fv, 1e-12):
                                    res.violate(prop + ".scenario-differs-from-fresh-model", {"scenario": list(key), "element": el, "t": float(t), "got": v,
                                                                                            "fresh": fv, "via": "session run_step", "op_index": n,
                                                                                            "settings": {"constants": sh["constants"], "points": sh["points"]}})
                                    break
                            if res.violations:
                                break
                        if res.violations:
                            break
                if res.violations:
                    break
                if sparse and not (n % 3 == 2 or n == len(case["ops"]) - 1):
                    continue
                if not observe_all(n, touched):
                    break
        if getattr(w, "session", None):
            res.probe("session_left_open")
        # ---- session twin: the step results of a session do not depend on what happens to OTHER scenarios meanwhile
        if not res.violations and w.step_outputs:
            sess = set()
            for op in case["ops"]:
                if op["op"] == "begin_session":
                    sess |= {(m, s_) for m in op["managers"] for s_ in op["scenarios"]}

            needed = set()

            def foreign(op):
                k = op["op"]
                if k in ("begin_session", "run_step", "end_session"):
                    return False
                if k == "run":
                    return not ({(m, s_) for m in op["managers"] for s_ in op["scenarios"]} & sess)
                if k in ("rest_run", "reset_cache", "poke_point"):
                    return (op["manager"], op["scenario"]) not in sess and (not op.get("also") or (op["manager"], op["also"]) not in sess)
                if k == "add_scenario":
                    return (op["manager"], op["name"]) not in sess and (op["manager"], op["name"]) not in needed
                return False
            # a scenario that an operation on the session's scenarios also names (one /run over two scenarios) has to exist in
            # the reference as well
            needed = set()
            for op in case["ops"]:
                if op["op"] in ("rest_run",) and op.get("also") and not foreign(op):
                    needed |= {(op["manager"], op["scenario"]), (op["manager"], op["also"])}
                if op["op"] == "run" and not foreign(op):
                    needed |= {(m, s_) for m in op["managers"] for s_ in op["scenarios"]}
            twin_ops = [op for op in case["ops"] if not foreign(op)]
            if len(twin_ops) < len(case["ops"]):
                res.probe("session_with_foreign_operations")
            if twin_factory is not None:
                w2 = twin_factory()
            else:
                w2 = ScenarioWorld(case["config"], EventLog(), RunResult())
                w2.setup()
            w2.session = set()
            w2.step_outputs = []
            r2 = RunResult()
            try:
                for op in twin_ops:
                    apply_op(w2, op, r2)
            except Exception as e:
                res.violate(prop + ".operation-raised", {"twin": True, "exception": type(e).__name__, "message": str(e)[:120]})
            from sim.core import canon
            a, b_ = canon(w.step_outputs), canon(w2.step_outputs)
            if a != b_ and not res.violations:
                idx = next((i for i, (x, y) in enumerate(zip(a, b_)) if x != y), min(len(a), len(b_)))
                res.violate(prop + ".session-steps-depend-on-other-scenarios", {"step_index": idx, "with_other_operations": str(a[idx] if idx < len(a) else None)[:240],
                                                                               "alone": str(b_[idx] if idx < len(b_) else None)[:240],
                                                                               "foreign_ops": [op for op in case["ops"] if foreign(op)][:4]})
            try:
                w2.bptk.destroy()
            except Exception:
                pass
        res.sim_units = n + 1
        res.nontrivial = changed and (shared or any(len(m["scenarios"]) > 1 for m in case["config"]["managers"]))
        try:
            w.bptk.destroy()
        except Exception:
            pass


def shrink(case):
    if case.get("kind") == "hybrid":
        for cand in shrink_list(case["ops"], min_len=1):
            c = copy.deepcopy(case)
            c["ops"] = copy.deepcopy(cand)
            yield c
        for j, sc in enumerate(case["scenarios"]):
            for key in ("pop", "states", "props", "sends", "acts"):
                if sc.get(key):
                    c = copy.deepcopy(case)
                    c["scenarios"][j][key] = []
                    yield c
        return
    for cand in shrink_list(case["ops"]):
        c = copy.deepcopy(case)
        c["ops"] = copy.deepcopy(cand)
        yield c
    cfg = case["config"]
    if len(cfg["managers"]) > 1:
        for j in range(len(cfg["managers"])):
            name = cfg["managers"][j]["name"]
            c = copy.deepcopy(case)
            c["config"]["managers"].pop(j)

            def uses(op):
                return name in op.get("managers", []) or op.get("manager") == name or name in (op.get("settings") or {})
            c["ops"] = [o for o in c["ops"] if not uses(o)]
            yield c
    for mi, m in enumerate(cfg["managers"]):
        for key in ("base_constants", "base_points"):
            if m.get(key):
                c = copy.deepcopy(case)
                c["config"]["managers"][mi].pop(key)
                yield c
        for sname, sd in m["scenarios"].items():
            if sd:
                c = copy.deepcopy(case)
                c["config"]["managers"][mi]["scenarios"][sname] = {}
                yield c
    for n, op in enumerate(case["ops"]):
        st = op.get("settings") or op.get("dict")
        if op["op"] in ("begin_session", "rest_run", "run_step") and st:
            for mgr, scs in st.items():
                for sc, d in scs.items():
                    for part in list(d):
                        if len(d) > 1:
                            c = copy.deepcopy(case)
                            c["ops"][n]["settings"][mgr][sc].pop(part)
                            yield c


def trigger(case, v, f):
    return False


def neutralise(case, v, f):
    return None
