"""C17  An instance lives exactly as long as its timeout since last access allows.

Pure virtual time: a timed event list over 1-4 instances with time-outs from every unit;
gaps are drawn around the boundary (timeout-1us, timeout, timeout+1us ...).  The reference
is a two-sided timeline model (must-be-alive / must-be-gone-after-a-trigger / no verdict in
between), not a copy of the sweep.
"""
import copy
import random

from sim.core import EventLog, RunResult, derive_seed
from sim.clock import timeout_us, UNIT_US
from worlds.server_world import ServerWorld
from checks.common import shrink_list

PROPERTY = "C17"
LEVEL = "exploration"
SIM_UNIT = "virtual seconds"
CHUNK = 25
RULE = ("a run = one timed event list (create / every instance-scoped request kind / keep-alive / metrics / "
        "full-metrics / stop) over 1-4 instances with time-outs in every unit, gaps drawn around timeout-1us, "
        "timeout, timeout+1us, 2*timeout, 0 and unrelated values, with and without an external state adapter, "
        "optionally with a clock that ticks between two reads of one request; non-trivial = at least one instance "
        "crossed its time-out (expired) during the run or a boundary gap (|elapsed-timeout| <= 1us, or <= 16us with "
        "ticks) was placed; distinct = distinct event-log digest")
REAL = ["BPTK_Py.server.bptkServer (InstanceManager sweep, timestamps, handlers, _ensure_instance_exists)",
        "BPTK_Py.externalstateadapter (FileAdapter logic, jsonpickle round trip)", "BPTK_Py.bptk", "Flask", "werkzeug test client"]
STUB = ["wall clock (virtual, integer microseconds)", "uuid source", "file system under FileAdapter (simfs)",
        "SdSimulation worker threads run serially", "TCP/HTTP server loop"]
ASSUMPTIONS = ["an instance is created when its creation request completes (slow-factory pattern: its timer does not start before the instance has been built)", "backwards clock jumps are not injected (the property speaks of elapsed time)",
               "with a ticking clock the +-1us boundary classes are widened to +-16us and verdicts inside the band are withheld",
               "real-time cross-check is left to the repository's own three sleep-based tests"]
FAULT_KINDS = ["preemption", "clock_gap_at_boundary", "clock_tick_between_reads", "expiry"]
PROBES = ["access_refused_as_locked_counts", "slow_bptk_factory", "stream_left_open_across_the_deadline", "zero_timeout_instance", "two_creations_together", "batch_of_instances", "two_sweeping_requests_together", "access_concurrent_with_sweep", "due_instance_accessed_during_a_sweep", "slow_release_of_expired_instances", "save_state_between_accesses", "created_via_start_instances", "expired_exactly_at_boundary", "alive_one_us_before_boundary", "restored_from_adapter",
          "refused_after_expiry", "self_access_after_expiry_before_sweep", "swept_by_other_access",
          "swept_by_create", "swept_by_metrics", "keepalive_restore"]
EXHAUSTIVE = {"quick": False, "thorough": False}

ACCESS_KINDS = ["run_step", "run_steps", "stream", "session_results", "flat_session_results", "begin_session",
                "end_session", "keep_alive"]
STEPPING = ("run_step", "run_steps", "stream")
BEGIN = {"scenario_managers": ["smA"], "scenarios": ["base"], "equations": ["stock"]}


def gen_timeout(rng):
    units = list(UNIT_US)
    r = rng.random()
    if r < 0.02:
        # a deadline beyond anything a calendar can express (the server accepts it): such an instance simply never comes due
        return rng.choice([{"weeks": 600000}, {"days": 4000000}, {"weeks": 500000, "hours": 3}])
    if r < 0.06:
        # no time at all: the instance is due at the first sweep after its creation (it never has to be served, and it has to be gone then)
        return rng.choice([{"seconds": 0}, {}, {u: 0 for u in units}])
    if r < 0.6:
        u = rng.choice(units)
        return {u: rng.choice([1, 2, 3])}
    if r < 0.9:
        a, b = rng.sample(units, 2)
        return {a: rng.choice([1, 2]), b: rng.choice([1, 5, 30])}
    return {u: rng.choice([0, 1]) for u in units if rng.random() < 0.5} or {"seconds": 2}


def plan(tier, verif_seed):
    n = 1600 if tier == "quick" else 10**9
    for i in range(n):
        yield {"i": i, "seed": derive_seed(verif_seed, PROPERTY, i), "keep_sample": i < 2}


def slow_sweep_pattern(rng):
    """a sweep that lasts (it releases an expired instance A first) while a keep-alive / results request reaches a younger
    instance B whose deadline falls inside the sweep: B's acknowledged access restarts its timer"""
    cost = 700000
    ta = rng.choice([5, 6])
    tb = ta + rng.choice([2, 3, 4])
    order = rng.choice(["AB", "AB", "BA", "ACB"])
    events = []
    tmo = {"A": {"seconds": ta}, "B": {"seconds": tb}, "C": {"hours": 1}}
    for x in order:
        events.append({"gap_us": 0, "op": "create", "timeout": tmo[x], "session": True, "via": "single"})
    b = order.index("B")
    lead = rng.choice([100000, 300000, 600000])          # B's deadline is `lead` after the pair starts, inside the sweep's 0.7 s
    events.append({"gap_us": tb * 10**6 - lead, "op": "access", "inst": b, "kind": rng.choice(["keep_alive", "keep_alive", "session_results"]),
                   "with_trigger": {"op": rng.choice(["metrics", "full_metrics"]), "trigger_first": rng.random() < 0.7,
                                    "sched": {"kind": "random", "seed": rng.randrange(2**32), "p": rng.choice([0.0, 0.01, 0.03, 0.3])}}})
    if rng.random() < 0.3:
        # variant: A and a later instance of the same age are both due; two sweeping requests arrive together
        events = [e for e in events if e["op"] == "create"]
        events.append({"gap_us": 0, "op": "create", "timeout": tmo["A"], "session": True, "via": "single"})
        events.append({"gap_us": (ta + 1) * 10**6, "op": rng.choice(["metrics", "full_metrics"]),
                       "with_second": {"op": "full_metrics", "sched": {"kind": "random", "seed": rng.randrange(2**32), "p": rng.choice([0.0, 0.01, 0.05])}}})
    events.append({"gap_us": rng.choice([1000, 10**6]), "op": rng.choice(["metrics", "full_metrics"])})
    events.append({"gap_us": 10**6, "op": "access", "inst": b, "kind": "session_results"})
    return {"property": PROPERTY,
            "config": {"adapter": rng.choice([None, "plain"]), "clock_ticks": None, "destroy_cost_us": cost,
                       "model": {"template": "T1", "start": 1.0, "stop": 400.0, "dt": 1.0, "managers": {"smA": {"base": {}}}}},
            "events": events}


def slow_factory_pattern(rng):
    """building the instance's bptk takes a good part of the time-out: the instance exists - and its timer starts - when it has
    been built, so it is still there one time-out minus a little after its id was handed out"""
    cost = rng.choice([2, 4]) * 10**6
    tsec = rng.choice([6, 10])
    events = [{"gap_us": 0, "op": "create", "timeout": {"hours": 1}, "session": True, "via": "single"},
              {"gap_us": 10**6, "op": "create", "timeout": {"seconds": tsec}, "session": False, "via": "single"}]
    # measured from the END of the creation: inside the time-out, but later than time-out minus building time
    events.append({"gap_us": tsec * 10**6 - rng.choice([1, 10**6, cost // 2]), "op": rng.choice(["metrics", "full_metrics"])})
    events.append({"gap_us": 0, "op": "access", "inst": 1, "kind": rng.choice(["keep_alive", "session_results"])})
    events.append({"gap_us": tsec * 10**6, "op": "full_metrics"})
    return {"property": PROPERTY,
            "config": {"adapter": None, "clock_ticks": None, "destroy_cost_us": 0, "factory_cost_us": cost,
                       "model": {"template": "T1", "start": 1.0, "stop": 400.0, "dt": 1.0, "managers": {"smA": {"base": {}}}}},
            "events": events}


def generate(spec):
    rng = random.Random(spec["seed"])
    if rng.random() < 0.08:
        return slow_sweep_pattern(rng)
    if rng.random() < 0.05:
        return slow_factory_pattern(rng)
    ticks = None
    if rng.random() < 0.25:
        ticks = [rng.choice([0, 0, 1]) for _ in range(rng.choice([3, 5, 7]))]
    band = 16 if ticks else 1
    # releasing an expired instance may take time (a sweep that destroys something lasts): 0 or 0.7 virtual seconds
    cost = rng.choice([0, 0, 0, 700000])
    adapter = rng.choice([None, "plain", "plain", "compressed"])
    events = []
    n_inst = rng.choice([1, 2, 2, 3, 4])
    insts = []          # model-side mirror used only to aim gaps: [timeout_us]
    last = []           # approximate last access (generator's own bookkeeping)
    now = 0
    n_events = rng.choice([8, 14, 20, 30])
    min_unit = 1 if not ticks else 1000

    def new_inst():
        to = gen_timeout(rng)
        while timeout_us(to) < (5 * 10**6 if cost else 64 if ticks else 0):      # a request must stay much shorter than any time-out
            to = gen_timeout(rng)
        insts.append(timeout_us(to))
        last.append(now)
        events.append({"gap_us": 0, "op": "create", "timeout": to, "session": rng.random() < 0.85,
                       "via": rng.choice(["single", "single", "plural"])})

    new_inst()
    for _ in range(n_events):
        r = rng.random()
        # aim the gap at one instance's boundary
        j = rng.randrange(len(insts))
        T = insts[j]
        if T > 3 * 10**14:
            T = rng.choice([10**6, 3600 * 10**6, 400 * 86400 * 10**6])      # (a deadline millennia away is not aimed at: the clock stays within a few years)
        target = rng.choice([T - band, T, T + band, 2 * T, T // 2, 0, band, T + 3 * band, T - 3 * band, 3 * T + 7]
                            + ([T - cost // 2, T - cost + band, T - band] if cost else []))
        gap = last[j] + target - now
        if gap < 0 or rng.random() < 0.15:
            gap = rng.choice([0, 1, 1000, 10**6, 60 * 10**6, 3600 * 10**6]) if not ticks else rng.choice([0, 1000, 10**6, 60 * 10**6])
        now += gap
        if r < 0.12 and len(insts) < n_inst + 1:
            to = gen_timeout(rng)
            while timeout_us(to) < (5 * 10**6 if cost else 64 if ticks else 0):      # a request must stay much shorter than any time-out
                to = gen_timeout(rng)
            insts.append(timeout_us(to))
            last.append(now)
            events.append({"gap_us": gap, "op": "create", "timeout": to, "session": rng.random() < 0.85,
                           "via": rng.choice(["single", "single", "plural"])})
            if events[-1]["via"] == "single" and rng.random() < 0.15:
                events[-1]["with_creation"] = {"sched": {"kind": "random", "seed": rng.randrange(2**32), "p": rng.choice([0.05, 0.2, 0.5])}}
                events[-1]["session"] = False
                insts.append(timeout_us(to))
                last.append(now)
            if events[-1]["via"] == "plural" and rng.random() < 0.3 and not cost:      # (a slow release of a whole batch would outlast the time-outs)
                # a batch of instances from one request (a pool warmed up in advance): they all come due together
                events[-1]["count"] = rng.choice([9, 12])
                events[-1]["session"] = False
                for _ in range(events[-1]["count"] - 1):
                    insts.append(timeout_us(to))
                    last.append(now)
        elif r < 0.30:
            events.append({"gap_us": gap, "op": rng.choice(["metrics", "full_metrics"])})
            if rng.random() < 0.15:
                # two sweeping requests in flight together: each of them answers without the instances that were due
                events[-1]["with_second"] = {"op": rng.choice(["metrics", "full_metrics"]),
                                             "sched": {"kind": "random", "seed": rng.randrange(2**32), "p": rng.choice([0.0, 0.02, 0.2])}}
        elif r < 0.33 and adapter:
            events.append({"gap_us": gap, "op": "save_state"})
        elif r < 0.34:
            events.append({"gap_us": gap, "op": "stop", "inst": rng.randrange(len(insts))})
        else:
            k = j if rng.random() < 0.6 else rng.randrange(len(insts))
            events.append({"gap_us": gap, "op": "access", "inst": k, "kind": rng.choice(ACCESS_KINDS)})
            if events[-1]["kind"] in ("keep_alive", "session_results", "flat_session_results") and rng.random() < 0.2:
                # the access arrives TOGETHER with a request that sweeps (two scheduled tasks, line-level interleaving
                # inside the server): an access that is acknowledged restarts the timer whatever the sweep was doing
                events[-1]["with_trigger"] = {"op": rng.choice(["metrics", "full_metrics"]),
                                              "sched": {"kind": "random", "seed": rng.randrange(2**32), "p": rng.choice([0.05, 0.2, 0.5])}}
            last[k] = now
    if adapter is None and not ticks and rng.random() < 0.2:
        # a client opens a stream on one more instance, reads its first chunk and stalls: the open stream is not an access,
        # the instance comes due like any other - and is gone after the next sweep although its stream is still open
        tsec = rng.choice([5, 7, 30])
        events.append({"gap_us": rng.choice([0, 10**6]), "op": "create", "timeout": {"seconds": tsec}, "session": True, "via": "single"})
        k = len(insts)
        insts.append(tsec * 10**6)
        last.append(now)
        events.append({"gap_us": rng.choice([0, 10**6]), "op": "access", "inst": k, "kind": "stream_hold"})
        if rng.random() < 0.5:
            # a stepping request that is refused because the stream holds the lock is still an instance-scoped request: an access.
            # The instance is there one time-out minus a little after IT, although the stream was opened longer ago
            events.append({"gap_us": (tsec * 10**6) // 2, "op": "access", "inst": k, "kind": rng.choice(["run_step", "run_steps"]), "expect_locked": True})
            events.append({"gap_us": (tsec * 10**6) // 2 + rng.choice([1000, 10**6]), "op": rng.choice(["metrics", "full_metrics"])})
            events.append({"gap_us": 1000, "op": "access", "inst": k, "kind": "keep_alive"})
        events.append({"gap_us": tsec * 10**6 * rng.choice([1, 1, 4]) + rng.choice([0, 1, 10**6]), "op": rng.choice(["metrics", "full_metrics", "create_other"])})
        if events[-1]["op"] == "create_other":
            events[-1] = {"gap_us": events[-1]["gap_us"], "op": "create", "timeout": {"hours": 1}, "session": False, "via": "single"}
        events.append({"gap_us": rng.choice([0, 1000]), "op": "full_metrics"})
        events.append({"gap_us": 1000, "op": "access", "inst": k, "kind": rng.choice(["session_results", "keep_alive"])})
    return {"property": PROPERTY,
            "config": {"adapter": adapter, "clock_ticks": ticks, "destroy_cost_us": cost,
                       "model": {"template": "T1", "start": 1.0, "stop": 400.0, "dt": 1.0,
                                 "managers": {"smA": {"base": {}}}}},
            "events": events}


class _I:
    __slots__ = ("id", "T", "lo", "hi", "state", "ext", "session", "serial", "gone_serials", "stopped")


def execute(case):
    log = EventLog()
    res = RunResult()
    cfg = case["config"]
    ticks = cfg.get("clock_ticks")
    band = 16 if ticks else 1
    adapter = cfg.get("adapter")
    insts = []              # _I per created instance, in creation order
    expect_destroyed = {}   # serial -> 1 for every bptk whose instance was timed out
    expired_any = [False]

    conc = any(e.get("with_trigger") or e.get("with_second") or e.get("with_creation") for e in case["events"])
    if cfg.get("destroy_cost_us"):
        res.probe("slow_release_of_expired_instances")
    with ServerWorld({"model": cfg["model"], "adapter": adapter, "clock_ticks": ticks, "threads": "auto" if conc else "serial",
                      "destroy_cost_us": cfg.get("destroy_cost_us", 0), "factory_cost_us": cfg.get("factory_cost_us", 0)}, log, res) as w:
        w.boot()
        clk = w.clock
        held_streams = []

        def peek_present(i):
            return i.id in w.instance_table()

        def age(t0, t1, skip=None, why=""):
            """a sweep trigger happened during [t0,t1]: instances whose full timeout has certainly
            elapsed must be gone from now on; certainly-young ones must still be there"""
            for i in insts:
                if i is skip or i.state == "gone" or i.stopped:
                    continue
                if t0 - i.hi >= i.T:
                    i.state = "gone"
                    expired_any[0] = True
                    expect_destroyed[i.serial] = 1
                    res.fault("expiry")
                    res.probe("swept_by_" + why)
                    if t0 - i.hi == i.T:
                        res.probe("expired_exactly_at_boundary")
                elif t1 - i.lo < i.T:
                    pass
                else:
                    # ambiguous band (only with a ticking clock): follow the observed outcome
                    res.probe("ambiguous_band")
                    if not peek_present(i):
                        i.state = "gone"
                        expect_destroyed[i.serial] = 1

        def resolve_serial(i):
            b = w.bptk_of(i.id)
            i.serial = b._sim_serial if b is not None else None

        def served_by_a_restored_copy(i):
            """an instance whose outcome was open (due, nobody known to have swept) was served: either it was still in memory, or it
            had been swept meanwhile (a request that was not served itself may have swept - one to a zero-time-out instance does)
            and came back from the adapter as a new object: then the old one was released"""
            old = i.serial
            resolve_serial(i)
            if i.serial != old:
                if old is not None:
                    expect_destroyed[old] = 1
                i.session = True
                res.probe("restored_from_adapter")

        for n, ev in enumerate(case["events"]):
            if ev["gap_us"]:
                clk.advance(ev["gap_us"])
                if ev["gap_us"] in (1,) or any(abs((clk.now_us - i.hi) - i.T) <= band for i in insts if i.state != "gone"):
                    res.fault("clock_gap_at_boundary")
            t0 = clk.now_us
            op = ev["op"]
            log.add("invoke", n, ev)
            if op == "create":
                if ev.get("via") == "plural":
                    res.probe("created_via_start_instances")
                    r = w.post("/start-instances", {"timeout": ev["timeout"], "instances": ev.get("count", 1)})
                    if r.status == 200 and isinstance(r.body, dict) and r.body.get("instance_uuids"):
                        r.body["instance_uuid"] = r.body["instance_uuids"][0]
                        if ev.get("count", 1) > 1 and len(r.body["instance_uuids"]) != ev["count"]:
                            res.violate("C17.A-create-refused", {"status": r.status, "asked": ev["count"], "got": len(r.body["instance_uuids"])})
                            break
                elif ev.get("with_creation"):
                    # two creations in flight together (line-level interleaving inside the server): both instances exist afterwards
                    from sim.threads import Scheduler, make_policy, run_tasks
                    box = {}

                    def mkc(name):
                        def f():
                            box[name] = w.post("/start-instance", {"timeout": ev["timeout"]})
                        return f
                    sched = Scheduler(make_policy(ev["with_creation"]["sched"]), ("server/bptkServer.py",), log=None)
                    with sched:
                        rr_ = run_tasks(sched, [mkc("a"), mkc("b")])
                    for x_ in rr_:
                        if x_ and x_[0] == "exc":
                            raise x_[1]
                    res.probe("two_creations_together")
                    if sched.switches > 2:
                        res.fault("preemption", sched.switches)
                    r = box["a"]
                    rb_ = box["b"]
                    if rb_.status != 200 or not isinstance(rb_.body, dict) or "instance_uuid" not in rb_.body:
                        res.violate("C17.A-create-refused", {"status": rb_.status, "concurrent": True})
                        break
                    if r.status == 200 and isinstance(r.body, dict) and "instance_uuid" in r.body:
                        r.body["instance_uuids"] = [r.body["instance_uuid"], rb_.body["instance_uuid"]]     # the second one is tracked like a batch member
                else:
                    r = w.post("/start-instance", {"timeout": ev["timeout"]})
                t1 = clk.now_us
                if r.status != 200 or not isinstance(r.body, dict) or "instance_uuid" not in r.body:
                    res.violate("C17.A-create-refused", {"status": r.status})
                    break
                i = _I()
                i.id = r.body["instance_uuid"]
                i.T = timeout_us(ev["timeout"])
                i.lo, i.hi = t0, t1
                if cfg.get("factory_cost_us") and not ticks:
                    i.lo = t1       # the instance exists when it has been built: that is when the creation request returns
                i.state = "alive"
                i.ext = False
                i.session = False
                i.stopped = False
                age(t0, t1, skip=None, why="create")
                insts.append(i)
                resolve_serial(i)
                for extra_id in (r.body.get("instance_uuids") or [])[1:]:
                    x = _I()
                    x.id = extra_id
                    x.T = i.T
                    x.lo, x.hi = t0, t1
                    x.state = "alive"
                    x.ext = False
                    x.session = False
                    x.stopped = False
                    insts.append(x)
                    resolve_serial(x)
                    res.probe("batch_of_instances")
                if ev.get("session"):
                    tb0 = clk.now_us
                    rb = w.post("/%s/begin-session" % i.id, BEGIN)
                    if (tb0 - i.hi) >= i.T:
                        # (only with a zero time-out) the instance is already due when its first request arrives and nobody has
                        # swept yet: either outcome is accepted, the model follows the server
                        res.probe("zero_timeout_instance")
                        expired_any[0] = True
                        if rb.status == 200:
                            i.session = True
                            i.lo, i.hi = tb0, clk.now_us
                            age(tb0, clk.now_us, skip=i, why="other_access")
                        else:
                            i.state = "gone"
                            expect_destroyed[i.serial] = 1
                    else:
                        if rb.status != 200:
                            res.violate("C17.A-alive-refused", {"event": n, "kind": "begin_session", "status": rb.status})
                        i.session = True
                        i.lo, i.hi = tb0, clk.now_us
                        age(tb0, clk.now_us, skip=i, why="other_access")
                log.add("return", n, r.status)
            elif op in ("metrics", "full_metrics") and ev.get("with_second"):
                from sim.threads import Scheduler, make_policy, run_tasks
                ws = ev["with_second"]
                box = {}

                def mk(name, which):
                    def f():
                        box[name] = w.get("/" + which.replace("_", "-"), auth=False)
                    return f
                sched = Scheduler(make_policy(ws["sched"]), ("server/bptkServer.py",), log=None)
                with sched:
                    rr_ = run_tasks(sched, [mk("a", op), mk("b", ws["op"])])
                for x_ in rr_:
                    if x_ and x_[0] == "exc":
                        raise x_[1]
                t1 = clk.now_us
                res.probe("two_sweeping_requests_together")
                if sched.switches > 2:
                    res.fault("preemption", sched.switches)
                log.add("pair", n, sched.interleaving_hash())
                due = [i for i in insts if i.state != "gone" and not i.stopped and t0 - i.hi >= i.T]
                maybe = [i for i in insts if i.state != "gone" and not i.stopped and not (t0 - i.hi >= i.T)]
                young = [i for i in maybe if t1 - i.lo < i.T]
                for name, which in (("a", op), ("b", ws["op"])):
                    r = box[name]
                    if which == "metrics":
                        count = None
                        for line in r.text.splitlines():
                            if line.startswith("bptk_instance_count "):
                                count = int(line.split()[1])
                        listed = None
                    else:
                        body = r.body or {}
                        count = body.get("instanceCount")
                        listed = {k for k in body if k not in ("instanceCount", "threadCount")}
                    # every request sweeps before it answers: what was due when the pair started is in neither answer,
                    # what is certainly young is in both
                    if r.status != 200 or count is None or count > len(maybe) or count < len(young):
                        res.violate("C17.B-metrics-count", {"event": n, "op": which, "count": count, "expected_at_most": len(maybe),
                                                            "expected_at_least": len(young), "due": [x.id for x in due], "concurrent": True})
                    if listed is not None:
                        for i in due:
                            if i.id in listed:
                                res.violate("C17.B-gone-but-listed", {"event": n, "inst": i.id, "concurrent": True})
                age(t0, t1, why="metrics")
                log.add("return", n, box["a"].status, box["b"].status)
            elif op in ("metrics", "full_metrics"):
                if op == "metrics":
                    r = w.get("/metrics", auth=False)
                    count = None
                    for line in r.text.splitlines():
                        if line.startswith("bptk_instance_count "):
                            count = int(line.split()[1])
                    listed = None
                else:
                    r = w.get("/full-metrics", auth=False)
                    body = r.body or {}
                    count = body.get("instanceCount")
                    listed = {k for k in body if k not in ("instanceCount", "threadCount")}
                t1 = clk.now_us
                age(t0, t1, why="metrics")
                alive = [i for i in insts if i.state != "gone" and not i.stopped]
                if r.status != 200 or count != len(alive):
                    res.violate("C17.B-metrics-count", {"event": n, "op": op, "count": count,
                                                        "expected": len(alive),
                                                        "gone": [x.id for x in insts if x.state == "gone"]})
                if listed is not None:
                    for i in insts:
                        if (i.state == "gone" or i.stopped) and i.id in listed:
                            res.violate("C17.B-gone-but-listed", {"event": n, "inst": i.id})
                        if i.state != "gone" and not i.stopped and i.session and i.id not in listed:
                            res.violate("C17.A-alive-not-listed", {"event": n, "inst": i.id})
                log.add("return", n, r.status, count)
            elif op == "save_state":
                # saving the whole server is neither an access to any instance nor a sweep trigger
                present = [i for i in insts if i.state != "gone" and not i.stopped]
                if adapter and present and all(i.session for i in present):
                    r = w.get("/save-state")
                    res.probe("save_state_between_accesses")
                    if r.status == 200:
                        for i in present:
                            i.ext = True
                    log.add("return", n, r.status)
            elif op == "stop":
                if ev["inst"] >= len(insts):
                    continue
                i = insts[ev["inst"]]
                r = w.post("/%s/stop-instance" % i.id)
                i.stopped = True
                i.ext = False
                log.add("return", n, r.status)
            elif op == "access":
                if ev["inst"] >= len(insts):
                    continue
                i = insts[ev["inst"]]
                if i.stopped:
                    continue
                kind = ev["kind"]
                if kind in STEPPING and not i.session and not (i.state == "gone" and i.ext):
                    kind = "session_results"
                path = "/%s/%s" % (i.id, {"stream": "stream-steps"}.get(kind, kind.replace("_", "-")))
                wt = ev.get("with_trigger") if kind in ("keep_alive", "session_results", "flat_session_results") else None
                if wt:
                    from sim.threads import Scheduler, make_policy, run_tasks
                    box = {}

                    def c_access():
                        box["a0"] = clk.now_us
                        box["r"] = w.get(path) if kind != "keep_alive" else w.post(path)
                        box["a1"] = clk.now_us

                    def c_trigger():
                        box["t"] = w.get("/" + wt["op"].replace("_", "-"), auth=False)
                    sched = Scheduler(make_policy(wt["sched"]), ("server/bptkServer.py",), log=None)
                    with sched:
                        # (the task created last runs first under the default policy)
                        rr_ = run_tasks(sched, [c_access, c_trigger] if wt.get("trigger_first") else [c_trigger, c_access])
                    for x_ in rr_:
                        if x_ and x_[0] == "exc":
                            raise x_[1]
                    r = box["r"]
                    res.probe("access_concurrent_with_sweep")
                    if sched.switches > 2:
                        res.fault("preemption", sched.switches)
                    log.add("pair", n, sched.interleaving_hash())
                elif kind == "run_step":
                    r = w.post(path, {"settings": {}})
                elif kind == "run_steps":
                    r = w.post(path, {"settings": {}, "numberSteps": 2})
                elif kind == "stream":
                    # bounded stream: read two chunks, then the client leaves (a full stream would run to the stop time)
                    r, _, _ = w.stream(path, {"settings": {}}, chunks=3)
                elif kind == "stream_hold":
                    from worlds.server_world import Resp
                    res.probe("stream_left_open_across_the_deadline")
                    r0 = w.app.test_client().open("/%s/stream-steps" % i.id, method="POST", json={"settings": {}}, buffered=False, headers=w.headers(True))
                    it_ = iter(r0.response)
                    try:
                        next(it_)
                    except Exception:
                        pass
                    held_streams.append(r0)
                    r = Resp(r0.status_code, "")
                elif kind in ("session_results", "flat_session_results"):
                    r = w.get(path)
                elif kind == "begin_session":
                    r = w.post(path, BEGIN)
                elif kind == "end_session":
                    r = w.post(path)
                else:
                    r = w.post(path)
                t1 = clk.now_us
                pair_t0, pair_t1 = t0, t1
                if wt:
                    t0, t1 = box["a0"], box["a1"]       # the access itself happened inside [a0, a1], within the pair's [t0, t1]
                served = r.status == 200
                refused = (not served) and isinstance(r.body, dict) and "valid instance" in str(r.body.get("error", ""))
                if (not served) and isinstance(r.body, dict) and "locked" in str(r.body.get("error", "")):
                    # refused because another stepping request of this instance is in progress: the request reached the instance,
                    # it is an access like any other
                    res.probe("access_refused_as_locked_counts")
                    served = True
                certainly_young = (t1 - i.lo) < i.T
                certainly_old = (t0 - i.hi) >= i.T
                if wt and not certainly_young and i.state != "gone":
                    # the instance was due (or in the band) while an access and a sweep were in flight together: the sequential
                    # reading leaves the outcome open, the model follows what the server did
                    res.probe("due_instance_accessed_during_a_sweep")
                    if peek_present(i) and served:
                        old_serial = i.serial
                        resolve_serial(i)
                        if i.serial != old_serial:
                            # swept and then restored from the adapter within the pair: the old bptk was released
                            expect_destroyed[old_serial] = 1
                            expired_any[0] = True
                            i.session = True
                            res.probe("restored_from_adapter")
                        i.lo, i.hi = t0, t1
                    else:
                        i.state = "gone"
                        expired_any[0] = True
                        expect_destroyed[i.serial] = 1
                    age(pair_t0, pair_t1, skip=i, why="metrics")
                    log.add("return", n, r.status)
                    continue
                detail = {"event": n, "kind": kind, "status": r.status, "inst": i.id,
                          "elapsed_us": t0 - i.hi, "timeout_us": i.T, "body": str(r.text)[:120]}
                if i.state == "gone":
                    if i.ext:
                        if not served:
                            res.violate("C17.B-restore-" + ("keepalive" if kind == "keep_alive" else "request"), detail)
                        else:
                            res.probe("restored_from_adapter")
                            if kind == "keep_alive":
                                res.probe("keepalive_restore")
                            i.state = "alive"
                            i.lo, i.hi = t0, t1
                            resolve_serial(i)
                            i.session = True        # externalised state always carries a session
                    else:
                        if served:
                            res.violate("C17.B-gone-but-served", detail)
                        else:
                            res.probe("refused_after_expiry")
                elif certainly_young:
                    if not served:
                        res.violate("C17.A-alive-refused", detail)
                    if (t1 - i.lo) == i.T - 1:
                        res.probe("alive_one_us_before_boundary")
                    i.lo, i.hi = t0, t1
                elif certainly_old:
                    # (C) expired, nobody swept yet: either outcome is accepted
                    res.probe("self_access_after_expiry_before_sweep")
                    expired_any[0] = True
                    if not served and i.ext and not wt:
                        # expired, not swept yet, state externalised: whichever way the server sees it (still in memory, or
                        # gone and restored) the request is served
                        res.violate("C17.B-restore-" + ("keepalive" if kind == "keep_alive" else "request"), dict(detail, unswept=True))
                    if served:
                        i.lo, i.hi = t0, t1
                        served_by_a_restored_copy(i)
                    else:
                        i.state = "gone"
                        expect_destroyed[i.serial] = 1
                else:
                    res.probe("ambiguous_band")
                    if served:
                        i.lo, i.hi = t0, t1
                        served_by_a_restored_copy(i)
                    else:
                        i.state = "gone"
                        expect_destroyed[i.serial] = 1
                if served and i.state != "gone":
                    if kind == "begin_session":
                        i.session = True
                    if kind == "end_session":
                        i.session = False
                    if kind in STEPPING and adapter:
                        i.ext = True
                if served or refused:
                    # an access to i is a sweep trigger for the others (a refused one is not:
                    # the handler returns before touching the instance table)
                    if served:
                        age(t0, t1, skip=i, why="other_access")
                if wt:
                    age(pair_t0, pair_t1, skip=i, why="metrics")      # the concurrent sweep happened whatever became of the access
                log.add("return", n, r.status)
        for r0 in held_streams:
            try:
                r0.close()          # still inside the simulated world
            except Exception:
                pass
        # settle: one last trigger, then the destroy() ledger
        t0 = clk.now_us
        w.get("/full-metrics", auth=False)
        age(t0, clk.now_us, why="metrics")
        for serial, want in sorted(((k, v) for k, v in expect_destroyed.items() if k is not None)):
            got = w.destroys.get(serial, 0)
            if serial is not None and conc and got >= want:
                continue        # two sweeps in flight together may both release the same expired instance; released is released
            if serial is not None and got != want:
                res.violate("C17.B-resources-released", {"bptk_serial": serial, "destroy_calls": got, "expected": want})
        for i in insts:
            if i.state != "gone" and not i.stopped and i.serial is not None and w.destroys.get(i.serial, 0) != 0:
                res.violate("C17.A-destroyed-while-alive", {"inst": i.id, "destroy_calls": w.destroys.get(i.serial)})
        res.sim_units = clk.now_us // 10**6
        if clk.ticked:
            res.fault("clock_tick_between_reads", clk.ticked)
    res.nontrivial = expired_any[0] or res.faults.get("clock_gap_at_boundary", 0) > 0
    res.digest = log.digest()
    return res


def shrink(case):
    for cand in shrink_list(case["events"], min_len=1):
        if cand and cand[0]["op"] == "create":
            c = copy.deepcopy(case)
            c["events"] = copy.deepcopy(cand)
            yield c
    if case["config"].get("clock_ticks"):
        c = copy.deepcopy(case)
        c["config"]["clock_ticks"] = None
        yield c
    if case["config"].get("destroy_cost_us"):
        c = copy.deepcopy(case)
        c["config"]["destroy_cost_us"] = 0
        yield c
    for n, ev in enumerate(case["events"]):
        for key in ("with_trigger", "with_second", "with_creation"):
            if ev.get(key):
                c = copy.deepcopy(case)
                c["events"][n].pop(key)
                yield c
    for n, ev in enumerate(case["events"]):
        if ev["op"] == "access" and ev["kind"] not in ("session_results", "keep_alive"):
            c = copy.deepcopy(case)
            c["events"][n]["kind"] = "session_results"
            yield c


def trigger(case, v, f):
    t = f["trigger"]["kind"]
    if t == "keepalive_to_expired_externalised":
        return any(e["op"] == "access" and e["kind"] == "keep_alive" for e in case["events"]) and bool(case["config"].get("adapter"))
    return False


def neutralise(case, v, f):
    t = f["trigger"]["kind"]
    if t == "keepalive_to_expired_externalised":
        c = copy.deepcopy(case)
        for e in c["events"]:
            if e["op"] == "access" and e["kind"] == "keep_alive":
                e["kind"] = "session_results"
        return c
    return None
