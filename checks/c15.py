"""C15  With a bearer token set, protected endpoints serve and change nothing without it.

A seeded authorised history brings the server into a state (live session, locked session held
by a half-read stream, expired-but-externalised instance, no instances ...).  At chosen points
the simulator injects the fault of this property: the full product of unauthenticated requests
  every rule of the live URL map x every method x every must-refuse credential shape
  x instance-id class x {no body, the body an authorised client would send}.
Per request: status >= 400 and the deep state fingerprint is unchanged.  Per history: the
authorised client's responses equal those of the same history without intruders.
"""
import copy
import json
import random

from sim.core import EventLog, RunResult, derive_seed
from worlds.server_world import ServerWorld
from checks.common import shrink_list

PROPERTY = "C15"
LEVEL = "fault_enumeration"
SIM_UNIT = "intruder requests"
CHUNK = 1
TOKEN = "s3cretTok"
RULE = ("a run = one seeded authorised history (start instances, begin sessions, steps with settings, a half-read "
        "stream held open, an instance left to expire with its state externalised, /run with settings on the server-level "
        "bptk) with 1-3 intruder bursts; a burst enumerates the complete product route x method x must-refuse credential "
        "shape x instance-id class x body taken from the live URL map; an evaluation = one intruder request; "
        "non-trivial = the request reached a protected rule with a body/id with which an authorised client would have "
        "changed state; distinct = distinct (rule, method, credential shape, id class, body kind, server-state digest)")
REAL = ["BPTK_Py.server.bptkServer (token_required, route table, all handlers)", "BPTK_Py.bptk", "BPTK_Py.externalstateadapter",
        "Flask routing (url_map enumerated from the live app)", "werkzeug test client"]
STUB = ["wall clock", "uuid source", "file system under FileAdapter", "SdSimulation worker threads run serially", "TCP/HTTP server loop"]
ASSUMPTIONS = ["automatic OPTIONS answers are Flask's own and excluded", "credential shapes that contain the token as a whole word are not sent (no verdict)",
               "states are sampled, the intruder product per state is complete"]
FAULT_KINDS = ["unauthorised_request"]
PROBES = ["requests_inside_a_pushed_app_context", "startup_failed_nothing_served", "authorised_admin_requests_before_burst", "authorised_reads_before_burst", "second_server_in_process", "intruder_while_authorised_request_in_flight", "authorised_request_failed_before_burst", "state_live_session", "state_locked_session", "state_expired_externalised", "state_no_instances",
          "authorised_twin_request_changes_state", "malformed_header_500"]
EXHAUSTIVE = {"quick": False, "thorough": False}

PUBLIC = {"/", "/healthy", "/metrics", "/full-metrics"}

SET9 = {"smA": {"base": {"constants": {"constant": 9.0}}}}
BODIES = {
    "run": {"scenario_managers": ["smA"], "scenarios": ["base"], "equations": ["stock", "constant"], "settings": SET9},
    "equations": {"scenarioManager": "smA", "scenario": "base"},
    "agents": {"scenarioManager": "smA", "scenario": "base"},
    "start-instance": {"timeout": {"minutes": 5}},
    "start-instances": {"timeout": {"minutes": 5}, "instances": 2},
    "run-step": {"settings": SET9},
    "run-steps": {"settings": SET9, "numberSteps": 2},
    "stream-steps": {"settings": SET9},
    "begin-session": {"scenario_managers": ["smA"], "scenarios": ["base", "alt"], "equations": ["stock"], "settings": SET9},
}


LOOKALIKE_IDS = ["metrics", "healthy-1", "full-metrics", "static"]


def header_shapes(app):
    """every request header the server's own source reads (besides Authorization), sent with a tempting value and without a token:
    nothing a client can put into a header stands in for the token"""
    import inspect
    import re
    import sys
    try:
        src = inspect.getsource(sys.modules[type(app).__module__])
    except Exception:
        return []
    names = set(re.findall(r"""request\.headers\.get\(\s*["']([^"']+)["']""", src)) | set(re.findall(r"""request\.headers\[\s*["']([^"']+)["']\s*\]""", src)) \
        | set(re.findall(r"""["']([^"']+)["']\s+(?:not\s+)?in\s+request\.headers""", src))
    for env in re.findall(r"""environ(?:\.get\(|\[)\s*["']HTTP_([A-Z0-9_]+)["']""", src):
        names.add("-".join(p_.capitalize() for p_ in env.split("_")))
    out = []
    for nm in sorted(n_ for n_ in names if n_.lower() != "authorization"):
        out.append(("header_the_server_reads:" + nm, {nm: "yes"}))
        out.append(("header_the_server_reads:" + nm + "+wrong_token", {nm: "yes", "Authorization": "Bearer wrong"}))
    return out


def shapes(T):
    if not isinstance(T, str):
        # a token that is not a string (a number read from a YAML / JSON configuration): texts that merely PARSE to it are not it
        t = str(T)
        return [("absent", None), ("wrong", "Bearer wrong"), ("leading_zero", "Bearer 0" + t), ("plus_sign", "Bearer +" + t),
                ("underscore", "Bearer " + t[0] + "_" + t[1:]), ("basic_wrong", "Basic " + t[::-1] + "9"), ("one_char", "Bearer " + t[:-1] + "x")]
    if T == "":
        # the configured token is the empty string (an unset environment variable handed through): still a configured token -
        # nothing that presents something else, or nothing at all, is served
        return [("absent", None), ("wrong", "Bearer wrong"), ("basic_wrong", "Basic dXNlcjpwdw=="), ("other_servers_token", "Bearer 0therTok"),
                ("non_ascii", "Bearer \u00fc"), ("one_char", "Bearer x")]
    sw = T.swapcase()
    mid = len(T) // 2
    repl = T[:mid] + ("x" if T[mid] != "x" else "y") + T[mid + 1:]
    return [
        ("absent", None),
        ("empty", ""),
        ("scheme_only", "Bearer"),
        ("wrong", "Bearer wrong"),
        ("prefix", "Bearer " + T[:-1]),
        ("suffix", "Bearer " + T + "x"),
        ("case", "Bearer " + sw),
        ("glued", "bearer" + T),
        ("one_char", "Bearer " + repl),
        ("basic_wrong", "Basic " + T[::-1]),
        ("two_words_wrong", "Bearer " + T[:-1] + " " + T[1:]),
        # the token with letters of the scheme in front of it, the scheme twice, the token without any scheme
        ("scheme_letters_before_token", "Bearer ear" + T),
        ("scheme_twice_glued", "Bearer Bearer" + T),
        ("bare_token", T),
        ("other_servers_token", "Bearer 0therTok"),
        # header values are latin-1: credentials with characters outside ASCII are credentials like any other
        ("non_ascii", "Bearer \u00fc"),
        ("token_plus_non_ascii", "Bearer " + T + "\u00e9"),
        # every character that is not a letter or digit replaced by a letter (what a pattern match would also accept),
        # and by another punctuation mark
        ("punctuation_as_letters", "Bearer " + "".join(c if c.isalnum() else "x" for c in T) + ("" if any(not c.isalnum() for c in T) else "x")),
        ("punctuation_swapped", "Bearer " + "".join(c if c.isalnum() else "-" for c in T) + ("" if any(not c.isalnum() for c in T) else "-")),
    ]


def plan(tier, verif_seed):
    n = 48 if tier == "quick" else 10**9
    for i in range(n):
        yield {"i": i, "seed": derive_seed(verif_seed, PROPERTY, i), "keep_sample": i < 1}


def generate(spec):
    rng = random.Random(spec["seed"])
    ops = []
    adapter = rng.choice(["plain", "plain", "compressed", None])
    ops.append({"op": "start", "name": "live", "timeout": {"hours": 12}})
    ops.append({"op": "begin", "name": "live", "settings": rng.choice([{}, {"smA": {"base": {"constants": {"constant": 3.0}}}}])})
    for _ in range(rng.randint(0, 3)):
        ops.append({"op": "step", "name": "live", "settings": rng.choice([{}, {"smA": {"base": {"constants": {"constant": 2.5}}}}])})
    if rng.random() < 0.7:
        ops.append({"op": "start", "name": "locked", "timeout": {"hours": 12}})
        ops.append({"op": "begin", "name": "locked", "settings": {}})
        ops.append({"op": "hold_stream", "name": "locked", "chunks": rng.choice([1, 2, 4])})
    if adapter and rng.random() < 0.7:
        ops.append({"op": "start", "name": "expired", "timeout": {"seconds": 5}})
        ops.append({"op": "begin", "name": "expired", "settings": {}})
        ops.append({"op": "step", "name": "expired", "settings": {}})
        ops.append({"op": "expire", "name": "expired"})
    if rng.random() < 0.5:
        ops.append({"op": "run", "settings": {"smA": {"alt": {"constants": {"constant": 4.0}}}}})
    for _ in range(rng.choice([0, 1, 1, 2])):
        # authorised requests that FAIL inside their handler (unknown scenario, empty body, unknown instance ...)
        ops.append({"op": "auth_fail", "which": rng.choice(["equations_unknown", "agents_empty", "run_unknown_manager", "begin_unknown_instance",
                                                            "equations_no_json"])})
    if rng.random() < 0.6:
        # an authorised client reads everything that can be read (every GET rule, with the live id where the rule has
        # one): whatever the server remembers of these exchanges must not be handed to a client without the token
        ops.append({"op": "auth_reads"})
    if rng.random() < 0.5:
        # an authorised operator uses the administrative routes (whole-server save and load, keep-alive): afterwards
        # the server still wants the token
        ops.append({"op": "auth_admin", "which": rng.sample(["load_state", "save_state", "keep_alive"], rng.randint(1, 3))})
    if rng.random() < 0.35:
        # another BptkServer object in the same process (same import name), configured with another token or with none
        ops.append({"op": "second_server", "token": rng.choice([None, "0therTok"])})
    if rng.random() < 0.5:
        ops.append({"op": "concurrent_intruders", "name": "live", "n": rng.choice([2, 3]),
                    "sched": {"kind": "random", "seed": rng.randrange(2**32), "p": rng.choice([0.05, 0.2, 0.5])}})
    rng.shuffle(ops)
    # keep per-instance order (start < begin < step/hold/expire)
    order = {"start": 0, "begin": 1, "step": 2, "hold_stream": 3, "expire": 4, "run": 2, "auth_fail": 2, "concurrent_intruders": 2, "second_server": 2, "auth_reads": 2, "auth_admin": 2}
    by = {}
    for o in ops:
        by.setdefault(o.get("name", "_"), []).append(o)
    for k in by:
        by[k].sort(key=lambda o: order[o["op"]])
    names = [o.get("name", "_") for o in ops]
    ops2 = []
    cnt = {k: 0 for k in by}
    for nm in names:
        ops2.append(by[nm][cnt[nm]])
        cnt[nm] += 1
    # bursts: 1-3 positions; position 0 = before anything exists ("no instances")
    npos = len(ops2) + 1
    bursts = sorted(set([rng.randrange(npos) for _ in range(rng.choice([1, 2, 2, 3]))] + ([0] if rng.random() < 0.25 else []) + [npos - 1]))
    # the token is data: characters that mean something to a regular expression, a URL or a shell are characters like any other
    token = rng.choice([TOKEN, TOKEN, "v2.prod.7f3a9c", "a+b(c)*d", "t0k/en?x=1", "", 1234])
    broken = bool(adapter) and rng.random() < 0.12
    return {"property": PROPERTY, "config": {"adapter": adapter, "token": token, "state_dir_missing": broken,
                                             # the whole history is driven inside one pushed application context (a script or a fixture does that)
                                             "app_context": rng.random() < 0.2,
                                             "model": {"template": "T1", "start": 1.0, "stop": 10.0, "dt": 1.0,
                                                       "managers": {"smA": {"base": {}, "alt": {"constants": {"constant": 2.0}}}}}},
            "ops": ops2, "bursts": bursts[-3:], "limit": None}


def _auth_op(w, st, o, held):
    name = o.get("name")
    op = o["op"]
    if op == "start":
        r = w.post("/start-instance", {"timeout": o["timeout"]})
        if r.status == 200 and isinstance(r.body, dict):
            st["ids"][name] = r.body["instance_uuid"]
        return r
    iid = st["ids"].get(name, "none")
    if op == "begin":
        return w.post("/%s/begin-session" % iid, {"scenario_managers": ["smA"], "scenarios": ["base"], "equations": ["stock", "constant"],
                                                  "settings": o["settings"]})
    if op == "step":
        return w.post("/%s/run-step" % iid, {"settings": o["settings"]})
    if op == "hold_stream":
        client = w.app.test_client()
        r = client.open("/%s/stream-steps" % iid, method="POST", json={"settings": {}}, headers=w.headers(True), buffered=False)
        it = iter(r.response)
        parts = []
        for _ in range(o["chunks"]):
            try:
                c = next(it)
            except StopIteration:
                break
            parts.append(c if isinstance(c, str) else c.decode())
        held.append(r)
        st["locked"] = iid
        from worlds.server_world import Resp
        return Resp(r.status_code, "".join(parts))
    if op == "expire":
        w.clock.advance(6 * 10**6)
        r = w.get("/metrics", auth=False)       # a sweep trigger: the instance now exists only on simfs
        st["expired"] = iid
        return r
    if op == "run":
        return w.post("/run", {"scenario_managers": ["smA"], "scenarios": ["alt"], "equations": ["stock", "constant"], "settings": o["settings"]})
    if op == "second_server":
        from BPTK_Py.server import BptkServer
        from worlds.server_world import Resp
        other = BptkServer("verif_server", w._factory(), None, o["token"])
        other.logger.disabled = True
        st.setdefault("others", []).append(other)
        # what the OTHER server accepts must not matter to the first one; use it once so that it is really alive
        rr = other.test_client().get("/healthy")
        return Resp(rr.status_code, rr.get_data(as_text=True))
    if op == "auth_admin":
        from worlds.server_world import Resp
        seen = []
        for wh in o["which"]:
            try:
                if wh == "load_state":
                    rr = w.post("/load-state")
                elif wh == "save_state":
                    rr = w.get("/save-state")
                else:
                    rr = w.post("/%s/keep-alive" % st["ids"].get("live", "feedfacefeedface"))
                seen.append([wh, rr.status])
            except Exception as e:      # a view that returns nothing (no adapter configured) is an error of the authorised request only
                seen.append([wh, "exc:" + type(e).__name__])
        return Resp(200, json.dumps(seen))
    if op == "auth_reads":
        from worlds.server_world import Resp
        seen = []
        for (rule, method, has_id, args, _ep) in _targets(w.app):
            if method != "GET" or rule.startswith("/static"):
                continue
            for variant in ((rule, rule.rstrip("/") + "/") if rule != "/" else (rule,)):
                path = variant
                for a in args:
                    path = path.replace("<%s>" % a, st["ids"].get("live", "feedfacefeedface") if a == "instance_uuid" else "x").replace("<path:%s>" % a, "x")
                rr = w.get(path)
                seen.append([variant, rr.status])
        return Resp(200, json.dumps(seen))
    if op == "auth_fail":
        wh = o["which"]
        if wh == "equations_unknown":
            return w.post("/equations", {"scenarioManager": "nope", "scenario": "nothing"})
        if wh == "agents_empty":
            return w.post("/agents", {})
        if wh == "run_unknown_manager":
            return w.post("/run", {"scenario_managers": ["nope"], "scenarios": ["x"], "equations": ["stock"], "settings": {"nope": {"x": {"constants": {"c": 1}}}}})
        if wh == "begin_unknown_instance":
            return w.post("/feedfacefeedface/begin-session", {"scenario_managers": ["smA"], "scenarios": ["base"], "equations": ["stock"]})
        return w.request("POST", "/equations", raw=b"not json", content_type="text/plain")
    raise ValueError(op)


CONC_TRACE = ("server/bptkServer.py", "BPTK_Py/bptk.py")


def concurrent_phase(w, st, o, res, log, with_intruders):
    """an authorised multi-step request is IN FLIGHT (inside its handler) while unauthenticated requests arrive on
    another thread; the baton scheduler pre-empts at the source lines of bptkServer.py / bptk.py"""
    from sim.threads import Scheduler, make_policy, run_tasks, Deadlock
    iid = st["ids"].get(o["name"], "none")
    out = {}

    def authorised():
        out["auth"] = w.post("/%s/run-steps" % iid, {"settings": {}, "numberSteps": o["n"]}, tag="auth-conc")

    def intruder():
        T = w.token if isinstance(w.token, str) else ""
        reqs = [("POST", "/start-instance", {"timeout": {"minutes": 5}}, None),
                ("POST", "/%s/run-step" % iid, {"settings": SET9}, "Bearer wrong"),
                ("POST", "/%s/stop-instance" % iid, None, None),
                ("GET", "/scenarios", None, "Bearer " + (T[:-1] if T else "x")),
                ("POST", "/%s/begin-session" % iid, BODIES["begin-session"], ""),
                ("POST", "/%s/keep-alive" % iid, None, "Basic " + (T[::-1] if T else "dXNlcjpwdw=="))]
        got = []
        for (m, path, body, hdr) in reqs:
            r = w.request(m, path, body=body, auth=False, headers={} if hdr is None else {"Authorization": hdr})
            got.append((m, path, hdr, r.status, str(r.text)[:80]))
            res.fault("unauthorised_request")
        out["intruder"] = got

    tasks = [authorised] + ([intruder] if with_intruders else [])
    sched = Scheduler(make_policy(o["sched"]), CONC_TRACE, log=None)
    n_before = len(w.instance_table())
    with sched:
        try:
            rr = run_tasks(sched, tasks)
        except Deadlock:
            res.violate("C15.deadlock", {})
            rr = []
    for x in rr:
        if x and x[0] == "exc":
            raise x[1]
    res.points += sched.points
    if with_intruders:
        res.probe("intruder_while_authorised_request_in_flight")
        for (m, path, hdr, status, text) in out.get("intruder", []):
            if status < 400:
                res.violate("C15.served-without-token", {"rule": path.replace(iid, "<instance_uuid>"), "method": m, "shape": "absent" if hdr is None else hdr[:12],
                                                         "id": "live", "body": "authorised_body", "status": status, "response": text,
                                                         "while": "an authorised run-steps request was in flight"})
        if len(w.instance_table()) != n_before:
            res.violate("C15.state-changed-by-refused-request", {"changed": ["instance_table"], "while": "an authorised request was in flight",
                                                                 "instances_before": n_before, "instances_after": len(w.instance_table())})
    return out.get("auth")


def _targets(app):
    out = []
    for rule in app.url_map.iter_rules():
        for m in sorted(rule.methods):
            if m == "OPTIONS":
                continue
            out.append((rule.rule, m, "instance_uuid" in rule.arguments, sorted(rule.arguments), rule.endpoint))
    out.sort()
    return out


def _body_from_handler(app, endpoint, st):
    """a route the harness has no template for: read the keys its view function looks up in the JSON body from the
    function's source and fill them with plausible values (ids of known instances, pieces of the known templates)"""
    import inspect
    import re
    try:
        src = inspect.getsource(app.view_functions[endpoint])
    except Exception:
        return None
    keys = set(re.findall(r"""content\[\s*["'](\w+)["']\s*\]""", src)) | set(re.findall(r"""["'](\w+)["']\s+(?:not\s+)?in\s+content""", src)) \
        | set(re.findall(r"""content\.get\(\s*["'](\w+)["']""", src))
    if not keys:
        return None
    ids = [v for k, v in sorted(st.get("ids", {}).items())] + ([st["expired"]] if st.get("expired") else [])
    known = {}
    for b in BODIES.values():
        known.update(b)
    body = {}
    for k in sorted(keys):
        lk = k.lower()
        if k in known:
            body[k] = known[k]
        elif "uuids" in lk or lk.endswith("ids") or "instances" in lk:
            body[k] = list(ids) or ["feedfacefeedface"]
        elif "uuid" in lk or lk.endswith("id") or "instance" in lk:
            body[k] = ids[0] if ids else "feedfacefeedface"
        else:
            body[k] = 1
    return body


def _body_for(path_rule):
    last = path_rule.rstrip("/").split("/")[-1]
    return BODIES.get(last)


def _burst(w, st, res, log, case, bno):
    """the complete intruder product against the current state"""
    idclasses = [("unknown", "feedfacefeedface")]
    if "live" in st["ids"]:
        idclasses.append(("live", st["ids"]["live"]))
    if st.get("locked"):
        idclasses.append(("locked", st["locked"]))
    if st.get("expired"):
        idclasses.append(("expired_externalised", st["expired"]))
    # ids that look like the name of a public endpoint: "whatever the instance id" includes these
    for lk in LOOKALIKE_IDS:
        idclasses.append(("looks_public:" + lk, lk))
    table = w.instance_table()
    if not table and not st.get("expired"):
        res.probe("state_no_instances")
    if "live" in st["ids"] and st["ids"]["live"] in table and table[st["ids"]["live"]]["instance"].session_state:
        res.probe("state_live_session")
    if st.get("locked") and w.bptk_of(st["locked"]) is not None and w.bptk_of(st["locked"]).is_locked():
        res.probe("state_locked_session")
    if st.get("expired") and st["expired"] not in table and ("/state/%s.json" % st["expired"]) in w.fs.files:
        res.probe("state_expired_externalised")
    before = w.fingerprint()
    state_digest = sorted(before.values())[0][:8]
    n = 0
    limit = case.get("limit")
    only = case.get("only")
    for (rule, method, has_id, args, endpoint) in _targets(w.app):
        known_body = _body_for(rule)
        bodies = [("none", None)]
        if known_body is not None:
            bodies.append(("authorised_body", known_body))
        elif rule not in PUBLIC and not rule.startswith("/static") and method in ("POST", "PUT", "PATCH", "DELETE"):
            # a route the harness has no template for: send every known template, and a body made of the keys its handler reads
            bodies += [("template:" + k, v) for k, v in sorted(BODIES.items())]
            hb = _body_from_handler(w.app, endpoint, st)
            if hb is not None:
                bodies.append(("keys_the_handler_reads", hb))
        for idc, iid in (idclasses if has_id else [("n/a", None)]):
            path = rule
            for a in args:
                path = path.replace("<%s>" % a, iid if a == "instance_uuid" and iid else "x").replace("<path:%s>" % a, "x")
            for sname, header in shapes(case["config"]["token"]) + header_shapes(w.app):
                if idc.startswith("looks_public") and sname not in ("absent", "wrong"):
                    continue
                for bname, body in bodies:
                    key = [rule, method, sname, idc, bname]
                    if only is not None and key != only:
                        continue
                    if limit is not None and n >= limit:
                        return n
                    hdr = {} if header is None else dict(header) if isinstance(header, dict) else {"Authorization": header}
                    r = w.request(method, path, body=body, auth=False, headers=hdr)
                    n += 1
                    res.sim_units += 1
                    res.fault("unauthorised_request")
                    res.extra.setdefault("distinct", set()).add(tuple(key) + (state_digest,))
                    if rule in PUBLIC:
                        if method == "GET" and r.status != 200:
                            res.violate("C15.public-endpoint-refused", {"rule": rule, "status": r.status})
                        continue
                    if rule.startswith("/static"):
                        continue
                    if has_id and idc != "unknown" or known_body is not None:
                        res.extra["nontrivial_n"] = res.extra.get("nontrivial_n", 0) + 1
                    if r.status == 500 and sname in ("empty", "scheme_only", "glued"):
                        res.probe("malformed_header_500")
                    after = w.fingerprint()
                    if r.status < 400:
                        res.violate("C15.served-without-token", {"rule": rule, "method": method, "shape": sname, "id": idc,
                                                                 "body": bname, "status": r.status, "burst": bno,
                                                                 "response": str(r.text)[:160]})
                    if after != before:
                        changed = sorted(k.split(":")[0] for k in set(before) | set(after) if before.get(k) != after.get(k))
                        res.violate("C15.state-changed-by-refused-request", {"rule": rule, "method": method, "shape": sname,
                                                                             "id": idc, "body": bname, "status": r.status,
                                                                             "changed": sorted(set(changed)), "burst": bno})
                        before = after
    return n


def _history(case, with_bursts, log, res):
    cfg = case["config"]
    responses = []
    held = []
    with ServerWorld({"model": cfg["model"], "adapter": cfg.get("adapter"), "token": cfg["token"], "threads": "auto",
                      "app_context": bool(cfg.get("app_context"))}, log, res) as w:
        if cfg.get("state_dir_missing"):
            # the state directory does not exist: a server that cannot read its external state does not come up at all -
            # or it comes up and still wants the token
            w.fs.dirs.discard(w.fs.root)
            try:
                w.boot()
            except Exception as e:
                if with_bursts:
                    res.probe("startup_failed_nothing_served")
                log.add("startup_failed", type(e).__name__)
                return responses
            w.fs.dirs.add(w.fs.root)
        else:
            w.boot()
        st = {"ids": {}}
        try:
            for n in range(len(case["ops"]) + 1):
                if with_bursts and n in case["bursts"]:
                    sent = _burst(w, st, res, log, case, n)
                    log.add("burst", n, sent)
                if n < len(case["ops"]):
                    o = case["ops"][n]
                    if o["op"] == "concurrent_intruders":
                        if "live" not in st["ids"]:
                            continue
                        r = concurrent_phase(w, st, o, res, log, with_bursts)
                        if r is None:
                            continue
                    else:
                        r = _auth_op(w, st, o, held)
                    text = r.text
                    for nm, iid in st["ids"].items():
                        text = text.replace(iid, nm)
                    try:
                        text = json.dumps(json.loads(text), sort_keys=True)     # key order is not a difference
                    except Exception:
                        pass
                    responses.append([n, o["op"], r.status, text])
                    if o["op"] == "second_server" and with_bursts:
                        res.probe("second_server_in_process")
                    if o["op"] == "auth_admin" and with_bursts and any(b > n for b in case["bursts"]):
                        res.probe("authorised_admin_requests_before_burst")
                    if o["op"] == "auth_reads" and with_bursts and any(b > n for b in case["bursts"]):
                        res.probe("authorised_reads_before_burst")
                    if o["op"] == "auth_fail" and with_bursts:
                        res.probe("authorised_request_failed_before_burst")
                    log.add("auth", n, o["op"], r.status)
            # final observable state through the authorised API
            for nm, iid in sorted(st["ids"].items()):
                if nm == "locked":
                    continue
                r = w.get("/%s/session-results" % iid)
                try:
                    ftext = json.dumps(json.loads(r.text), sort_keys=True)
                except Exception:
                    ftext = r.text
                responses.append(["final", nm, r.status, ftext])
            # the authorised twin of a refused request does change the state (the oracle can see a change)
            if with_bursts and "live" in st["ids"]:
                b = w.fingerprint()
                w.post("/%s/run-step" % st["ids"]["live"], {"settings": SET9})
                if w.fingerprint() != b:
                    res.probe("authorised_twin_request_changes_state")
        finally:
            for r in held:
                try:
                    r.close()
                except Exception:
                    pass
    return responses


def execute(case):
    log = EventLog()
    res = RunResult()
    with_i = _history(case, True, log, res)
    log2 = EventLog()
    res2 = RunResult()
    without = _history(case, False, log2, res2)
    if with_i != without:
        first = None
        for a, b in zip(with_i, without):
            if a != b:
                first = {"with_intruders": a[:3] + [str(a[3])[:200]], "without": b[:3] + [str(b[3])[:200]]}
                break
        res.violate("C15.authorised-responses-differ", first or {"lengths": [len(with_i), len(without)]})
    d = res.extra.pop("distinct", set())
    res.extra["distinct_n"] = len(d)
    res.nontrivial = res.extra.get("nontrivial_n", 0) > 0
    res.digest = log.digest()
    return res


def shrink(case):
    # one intruder request instead of the product: find the offending key from the violation
    if case.get("only") is None:
        res = execute(case)
        for v in res.violations:
            d = v.detail
            if isinstance(d, dict) and "rule" in d and "shape" in d:
                c = copy.deepcopy(case)
                c["only"] = [d["rule"], d["method"], d["shape"], d["id"], d["body"]]
                yield c
    if len(case["bursts"]) > 1:
        for b in case["bursts"]:
            c = copy.deepcopy(case)
            c["bursts"] = [b]
            yield c
    for cand in shrink_list(case["ops"]):
        c = copy.deepcopy(case)
        c["ops"] = copy.deepcopy(cand)
        c["bursts"] = [min(b, len(cand)) for b in c["bursts"]]
        yield c


def trigger(case, v, f):
    return False


def neutralise(case, v, f):
    return None


def evidence_extra(tier):
    return {"credential_shapes_must_refuse": [s for s, _ in shapes(TOKEN)],
            "id_classes": ["unknown", "live", "locked", "expired_externalised"],
            "explanation": "evaluations (runs) are histories; simulated_time.total counts the intruder requests actually sent"}
