"""C18  Step-advancing requests on one instance never interleave.

System under simulation: real BptkServer / InstanceManager / bptk / SdRunner / SdSimulation,
one instance with a live session.  2-3 client tasks issue one step-advancing request each;
the simulator decides, at every source line of bptkServer.py / bptk.py / sd_runner.py, which
client runs.  Faults: client disconnect mid-stream, exception inside a step.
Oracle: invariants over the recorded history (see DESIGN.md, C18 (a)-(g)).
"""
import copy
import json
import random

from sim.core import EventLog, RunResult, derive_seed
from sim.threads import Scheduler, make_policy, run_tasks, Deadlock
from worlds.server_world import ServerWorld
from checks.common import shrink_list, shrink_sched, times_of_step_result, feq

PROPERTY = "C18"
LEVEL = "exploration"
SIM_UNIT = "scheduling points"
CHUNK = 6
TRACE = ("server/bptkServer.py", "BPTK_Py/bptk.py", "scenariorunners/sd_runner.py")
CRITICAL = ("is_locked", "lock", "unlock", "run_step", "progress", "release_lock")
INTERLEAVING_MEASURE = ("distinct sequences of (task, function) over entries into is_locked/lock/unlock/"
                        "run_step/progress of bptk.py and bptkServer.py during the concurrent phase")
RULE = ("a run = either a sequential choreography of held streaming responses (open / read n chunks / close late) mixed with "
        "stepping requests and session restarts, or one instance with a live session + 2-3 concurrent step-advancing requests (kinds: run-step, "
        "run-steps(n), stream-steps consumed fully, stream-steps closed after m chunks, optionally an injected "
        "exception in the j-th step; invalid requests: JSON without a required key, malformed JSON, no JSON) executed under one schedule (random(p), pct(d), single-pre-emption sweep or "
        "default); non-trivial = at least one task switch happened at a source-line pre-emption point while two "
        "requests were in flight, or a fault (disconnect/exception) fired; distinct = distinct event-log digest")
REAL = ["BPTK_Py.server.bptkServer (handlers, token_required, InstanceManager)", "BPTK_Py.bptk (begin_session, "
        "run_step, lock/unlock, session_results)", "BPTK_Py.scenariorunners.sd_runner", "BPTK_Py.sdsimulation",
        "BPTK_Py.modeling.model + SD DSL", "Flask routing/request parsing", "werkzeug test client (in-process WSGI)",
        "jsonpickle", "pandas"]
STUB = ["choice of the running thread (baton scheduler)", "uuid source", "wall clock", "TCP/HTTP server loop",
        "SdSimulation worker threads run under the same scheduler (untraced code, atomic between points)"]
ASSUMPTIONS = ["code outside the traced files is atomic between two pre-emption points",
               "request loss/duplication not injected: no property promises idempotent retry",
               "sampling over schedules, not proof; the single-pre-emption sweep is complete only for the sampled request pairs"]
FAULT_KINDS = ["preemption", "client_disconnect", "step_exception", "invalid_request", "state_store_error"]
PROBES = ["clients_race_on_a_restored_session", "response_held_past_the_instance_deadline", "instance_restored_during_choreography", "stream_dropped_before_first_chunk", "view_and_body_on_different_threads", "save_failed_during_stepping_request", "exception_inside_a_step", "time_passes_while_stream_held", "held_stream", "late_close_of_finished_stream", "session_restarted_during_choreography", "stepping_without_session", "invalid_request_sent", "disconnect_mid_stream", "exception_mid_request",
          "refused_while_locked", "stream_completed", "preempted_inside_run_step"]
EXHAUSTIVE = {"quick": False, "thorough": False}

KINDS = ["run_step", "run_step_nobody", "run_steps", "stream", "stream_disc", "run_steps_exc", "stream_exc",
         "run_step_bad", "run_steps_bad", "stream_bad", "stream_nobody", "results", "keep_alive"]


def client_of(kind, rng):
    if kind == "run_step":
        return {"kind": "run_step", "body": True}
    if kind == "run_step_nobody":
        return {"kind": "run_step", "body": False}
    if kind == "run_steps":
        n = rng.choice([2, 3, 4])
        st = rng.getstate()          # (round 14: a batch of ONE, decided by a peek that leaves every other draw of the case where it was)
        if rng.random() < 0.3:
            n = 1
        rng.setstate(st)
        return {"kind": "run_steps", "n": n}
    if kind == "stream":
        return {"kind": "stream", "chunks": None, "body": rng.random() < 0.7}
    if kind == "stream_disc":
        return {"kind": "stream", "chunks": rng.choice([1, 2, 3, 4, 5]), "body": True}
    if kind == "run_steps_exc":
        n = rng.choice([2, 3, 4])
        return {"kind": "run_steps", "n": n, "raise_at": rng.randrange(n), "raise_where": rng.choice(["before", "inside"])}
    if kind == "stream_exc":
        return {"kind": "stream", "chunks": None, "body": True, "raise_at": rng.choice([0, 1, 2]), "raise_where": rng.choice(["before", "inside"])}
    if kind in ("results", "keep_alive"):
        return {"kind": kind}          # a request that does not advance anything, in flight next to the stepping ones
    if kind == "run_step_bad":
        return {"kind": "run_step", "bad": rng.choice(["no_settings", "malformed"])}
    if kind == "run_steps_bad":
        return {"kind": "run_steps", "n": 2, "bad": rng.choice(["no_settings", "no_number", "malformed", "not_json"])}
    if kind == "stream_bad":
        return {"kind": "stream", "chunks": None, "bad": rng.choice(["no_settings", "malformed"])}
    if kind == "stream_nobody":
        return {"kind": "stream", "chunks": None, "body": False}
    raise ValueError(kind)


def bad_request(w, inst, c, tag):
    """a request an imperfect client might send: valid JSON without a required key, malformed JSON, no JSON at all"""
    path = "/%s/%s" % (inst, {"run_step": "run-step", "run_steps": "run-steps", "stream": "stream-steps"}[c["kind"]])
    bad = c["bad"]
    if bad == "no_settings":
        body = {"numberSteps": 2} if c["kind"] == "run_steps" else {"flatResults": False}
        return w.post(path, body, tag=tag)
    if bad == "no_number":
        return w.post(path, {"settings": {}}, tag=tag)
    if bad == "malformed":
        return w.request("POST", path, raw=b'{"settings": {', content_type="application/json", tag=tag)
    return w.request("POST", path, raw=b"settings=1", content_type="text/plain", tag=tag)


def base_case(clients, sched, pre=1, stop=9.0, adapter=None):
    return {
        "property": PROPERTY,
        "config": {
            "model": {"template": "T1", "start": 1.0, "stop": stop, "dt": 1.0,
                      "managers": {"smA": {"base": {}}}},
            "adapter": adapter,
            "pre": pre,
        },
        "clients": clients,
        "sched": sched,
    }


# ------------------------------------------------------------------ plan / generate

PAIR_KINDS = ["run_step", "run_steps", "stream", "stream_disc", "run_steps_exc", "stream_exc", "run_step_nobody", "stream_bad", "run_steps_bad", "run_step_bad"]


def plan(tier, verif_seed):
    i = 0
    # 1. directed, default schedule: every kind alone and every ordered pair, serialised
    for k in KINDS:
        yield {"i": i, "mode": "directed", "kinds": [k], "seed": derive_seed(verif_seed, PROPERTY, i), "keep_sample": i < 1}
        i += 1
    pairs = [(a, b) for a in PAIR_KINDS for b in PAIR_KINDS]
    for a, b in pairs:
        yield {"i": i, "mode": "directed", "kinds": [a, b], "seed": derive_seed(verif_seed, PROPERTY, i)}
        i += 1
    # 2. every ordered pair under sampled schedules
    reps = 10 if tier == "quick" else 40
    for rep in range(reps):
        for a, b in pairs:
            yield {"i": i, "mode": "random", "kinds": [a, b], "seed": derive_seed(verif_seed, PROPERTY, i),
                   "keep_sample": rep == 0 and (a, b) == ("run_steps", "stream")}
            i += 1
    # 3. triples
    rng = random.Random(derive_seed(verif_seed, PROPERTY, "triples"))
    for _ in range(60 if tier == "quick" else 400):
        ks = [rng.choice(PAIR_KINDS + ["results", "keep_alive"]) for _ in range(3)]
        yield {"i": i, "mode": "random", "kinds": ks, "seed": derive_seed(verif_seed, PROPERTY, i)}
        i += 1
    # 3b. sequential choreographies with HELD responses: streams that are opened, read a few chunks at a time and closed
    #     late, with other requests (also end-session/begin-session) issued in between
    for j in range(400 if tier == "quick" else 4000):
        yield {"i": i, "mode": "choreo", "seed": derive_seed(verif_seed, PROPERTY, "choreo", j), "keep_sample": j == 0}
        i += 1
    # 3c. complete OVERTAKING sweep: the request that runs first is overtaken at every one of its scheduling points by the
    #     other one, which then runs to completion (with its worker threads) before the first continues
    over = [("run_steps", "run_step"), ("stream", "run_step"), ("run_step", "run_steps")] if tier == "quick" else \
        [(a, b) for a in ["run_step", "run_steps", "stream", "stream_disc", "run_steps_exc"] for b in ["run_step", "run_steps", "stream", "stream_disc", "run_steps_exc"]]
    for a, b in over:
        spec0 = {"i": i, "mode": "directed", "kinds": [a, b], "seed": derive_seed(verif_seed, PROPERTY, "overtake", a, b)}
        r0 = execute(generate(spec0))
        for k in range(r0.extra.get("first_point", 0), r0.points):
            yield {"i": i, "mode": "overtake", "kinds": [a, b], "seed": spec0["seed"], "k": k}
            i += 1
    # 3d. two overtakings in a row on a triple: an INVALID run-steps A is overtaken by a stream B inside one of A's windows, B is
    #     interrupted somewhere and A finishes, then a run-step C arrives while B is still in progress (what A does after its
    #     error response is decided must not matter to B)
    for bad in ("run_steps_bad",):
        spec0 = {"i": i, "mode": "directed", "kinds": ["run_step", "stream", bad], "seed": derive_seed(verif_seed, PROPERTY, "overtake2", bad)}
        r0 = execute(generate(spec0))
        first = r0.extra.get("first_point", 0)
        stride = 5 if tier == "quick" else 1
        for k1 in range(first, min(r0.points, first + 70)):
            for k2 in range(k1 + 2, min(r0.points, k1 + 260), stride):
                yield {"i": i, "mode": "overtake2", "kinds": ["run_step", "stream", bad], "seed": spec0["seed"], "stages": [[k1, 2], [k2, 3]]}
                i += 1
    if tier != "thorough":
        return
    # 4. complete single-pre-emption sweep for every ordered pair of the five basic kinds
    sweep_kinds = ["run_step", "run_steps", "stream", "stream_disc", "run_steps_exc"]
    for a in sweep_kinds:
        for b in sweep_kinds:
            spec0 = {"i": i, "mode": "directed", "kinds": [a, b], "seed": derive_seed(verif_seed, PROPERTY, "sweep", a, b)}
            c0 = generate(spec0)
            r0 = execute(c0)
            first = r0.extra.get("first_point", 0)
            for k in range(first, r0.points):
                yield {"i": i, "mode": "sweep", "kinds": [a, b], "seed": spec0["seed"], "k": k}
                i += 1
    # 5. endless sampling (the runner stops at the budget)
    while True:
        n = rng.choice([2, 2, 2, 3])
        ks = [rng.choice(PAIR_KINDS) for _ in range(n)]
        yield {"i": i, "mode": "random", "kinds": ks, "seed": derive_seed(verif_seed, PROPERTY, i)}
        i += 1


def gen_choreo_pattern(rng):
    """choreographies built around windows in which a lock can be released by the wrong party"""
    step = lambda: {"a": "req", "kind": rng.choice(["run_step", "run_steps", "stream_full"]), "n": 2}
    opt = lambda x: [x] if rng.random() < 0.5 else []
    k = rng.randrange(5)
    if k == 4:      # stepping requests while the instance has no session, then a new session
        return ([{"a": "req", "kind": "end_session"}, step()] + opt(step()) + [{"a": "req", "kind": "begin_session"}, step()]
                + opt({"a": "open", "h": "s0"}) + [step()])
    if k == 0:      # a finished stream is closed late, after another multi-step request took the lock
        return ([{"a": "open", "h": "s0"}, {"a": "read", "h": "s0", "n": None}] + opt({"a": "req", "kind": "new_session"})
                + [{"a": "open", "h": "s1"}] + opt({"a": "read", "h": "s1", "n": rng.choice([1, 2, 3])})
                + [{"a": "close", "h": "s0"}, step()] + opt(step()) + [{"a": "read", "h": "s1", "n": None}, {"a": "close", "h": "s1"}, step()])
    if k == 1:      # the session is restarted while a stream is in progress
        return ([{"a": "open", "h": "s0"}, {"a": "read", "h": "s0", "n": rng.choice([1, 2, 4])}, {"a": "req", "kind": "new_session"}, step()]
                + opt({"a": "read", "h": "s0", "n": 2}) + [step(), {"a": "read", "h": "s0", "n": None}, {"a": "close", "h": "s0"}, step()])
    if k == 2:      # refused requests while a stream is in progress must not release its lock
        return ([{"a": "open", "h": "s0"}, {"a": "read", "h": "s0", "n": rng.choice([1, 2, 3])}, step(), step()]
                + opt({"a": "open", "h": "s1"}) + [step(), {"a": "read", "h": "s0", "n": None}, {"a": "close", "h": "s0"}, step()])
    # a stream abandoned by its client (closed early), then others
    return ([{"a": "open", "h": "s0"}, {"a": "read", "h": "s0", "n": rng.choice([1, 2, 3])}, {"a": "close", "h": "s0"}, step(),
             {"a": "open", "h": "s1"}, step(), {"a": "close", "h": "s1"}, step()])


ADVANCES_US = [6 * 60 * 10**6, 45 * 60 * 10**6, 3 * 3600 * 10**6]


def gen_choreo(rng):
    if rng.random() < 0.35:
        acts = gen_choreo_pattern(rng)
        if rng.random() < 0.5:
            # a slow client: wall-clock time passes while a response is being held (well below the instance time-out)
            reads = [i for i, a in enumerate(acts) if a["a"] in ("read", "open")]
            if reads:
                acts.insert(rng.choice(reads) + 1, {"a": "advance", "us": rng.choice(ADVANCES_US)})
        return acts
    acts = []
    handles = {}          # name -> "open" | "exhausted" | "closed"
    n_handles = 0
    for _ in range(rng.randint(4, 12)):
        openh = [h for h, st in handles.items() if st == "open"]
        unclosed = [h for h, st in handles.items() if st != "closed"]
        r = rng.random()
        if r < 0.22 and n_handles < 3:
            h = "s%d" % n_handles
            n_handles += 1
            handles[h] = "open"
            acts.append({"a": "open", "h": h})
        elif r < 0.45 and openh:
            h = rng.choice(openh)
            n = rng.choice([1, 2, 3, None])
            acts.append({"a": "read", "h": h, "n": n})
            if n is None:
                handles[h] = "exhausted"
        elif r < 0.58 and unclosed:
            h = rng.choice(unclosed)
            handles[h] = "closed"
            acts.append({"a": "close", "h": h})
        elif r < 0.63:
            acts.append({"a": "req", "kind": "new_session"})      # end-session followed by begin-session
        elif r < 0.66:
            acts.append({"a": "req", "kind": rng.choice(["end_session", "begin_session"])})
        elif r < 0.72:
            acts.append({"a": "req", "kind": rng.choice(["results", "keep_alive"])})
        elif r < 0.74 and not [h for h, st in handles.items() if st == "open"]:
            acts.append({"a": "open_drop"})
        elif r < 0.76 and not [h for h, st in handles.items() if st == "open"]:
            acts.append({"a": "req", "kind": "restore"})
            if n_handles < 3 and rng.random() < 0.7:
                # ... and the first stepping request after the restore is a stream that is held while others knock
                h = "s%d" % n_handles
                n_handles += 1
                handles[h] = "open"
                acts.append({"a": "open", "h": h})
                acts.append({"a": "read", "h": h, "n": rng.choice([1, 2, 3])})
                acts.append({"a": "req", "kind": rng.choice(["run_step", "run_steps"]), "n": 2})
        elif r < 0.79 and sum(1 for a in acts if a["a"] == "advance") < 3:
            acts.append({"a": "advance", "us": rng.choice(ADVANCES_US)})
        else:
            k = rng.choice(["run_step", "run_step", "run_steps", "stream_full"])
            acts.append({"a": "req", "kind": k, "n": rng.choice([2, 3])})
    for h, st in handles.items():
        if st == "open":
            acts.append({"a": "read", "h": h, "n": None})
        if st != "closed":
            acts.append({"a": "close", "h": h})
    return acts


def generate(spec):
    rng = random.Random(spec["seed"])
    if spec["mode"] == "choreo":
        c = base_case([], {"kind": "default"}, pre=rng.choice([0, 1]), stop=float(rng.choice([8, 12, 16])), adapter=rng.choice([None, None, "plain"]))
        c["choreo"] = gen_choreo(rng)
        for a_ in c["choreo"]:
            if a_["a"] == "open" and rng.random() < 0.3:
                a_["other_thread"] = True
        if c["config"].get("adapter") and any(a_["a"] == "advance" for a_ in c["choreo"]) and rng.random() < 0.5:
            # the instance's time-out is SHORTER than the time that passes while a response is held (with an adapter, and with pre >= 1
            # a state to restore from): the next request to the instance finds it past its deadline - and finds its lock as it is
            c["config"]["short_timeout"] = True
            c["config"]["pre"] = max(1, c["config"].get("pre", 0))
        if c["config"].get("adapter") and rng.random() < 0.5:
            # the state store fails while a stepping request externalises its state (disk full, store down): the request
            # ends by error, and the lock is released all the same
            idx = [i for i, a in enumerate(c["choreo"]) if a["a"] == "req" and a["kind"] in ("run_step", "run_steps", "stream_full")]
            if idx:
                c["choreo"][rng.choice(idx)]["save_fault"] = rng.choice(["eio_on_open", "eio_on_write"])
        return c
    clients = [client_of(k, rng) for k in spec["kinds"]]
    pre = rng.choice([0, 1, 2])
    stop = float(rng.choice([6, 8, 9, 12]))
    adapter = rng.choice([None, None, "plain"])
    mode = spec["mode"]
    if mode == "directed":
        sched = {"kind": "default"}
    elif mode == "overtake":
        sched = {"kind": "overtake", "k": spec["k"], "to": 1}
    elif mode == "overtake2":
        sched = {"kind": "overtake", "stages": spec["stages"]}
    elif mode == "sweep":
        # driver=0, clients are tasks 1..n in start order; by default the LAST client runs first
        # (depth-first), the single pre-emption hands the baton to the first one
        sched = {"kind": "replay", "preemptions": [[spec["k"], 1]]}
    else:
        r = rng.random()
        if r < 0.6:
            sched = {"kind": "random", "seed": rng.randrange(2**32), "p": rng.choice([0.01, 0.03, 0.1, 0.3])}
        else:
            sched = {"kind": "pct", "seed": rng.randrange(2**32), "depth": rng.choice([1, 2, 3]),
                     "est": rng.choice([150, 400, 900])}
    c_ = base_case(clients, sched, pre=pre, stop=stop, adapter=adapter)
    if adapter and pre >= 1 and mode not in ("directed", "overtake", "overtake2", "sweep") and rng.random() < 0.4:
        c_["config"]["restore_before"] = True
    if derive_seed(spec["seed"], "grid", 0) % 5 == 0:
        # (round 14) a start time finer than the step: the session clock is start + k*dt, not a multiple of dt
        c_["config"]["model"]["start"] = 0.5
    return c_


# ------------------------------------------------------------------ execute + oracle

BEGIN = {"scenario_managers": ["smA"], "scenarios": ["base"], "equations": ["stock", "flow"]}


def _parse_stream_parts(parts):
    steps = []
    for p in parts:
        p = p.strip()
        if p.startswith("{"):
            try:
                steps.append(json.loads(p))
            except Exception:
                steps.append(None)
    return steps


def _locked_error(status, body):
    return status != 200 and isinstance(body, dict) and "lock" in str(body.get("error", ""))


def execute_choreo(case):
    """sequential choreography with held streaming responses.  Oracle (the property read sequentially): a
    step-advancing request issued while a multi-step response is in progress (opened and accepted, not yet
    exhausted, not closed) is refused; one issued while none is in progress is accepted."""
    log = EventLog()
    res = RunResult()
    cfg = case["config"]
    log.add("case", case["choreo"])
    with ServerWorld({"model": cfg["model"], "adapter": cfg.get("adapter"), "threads": "serial"}, log, res) as w:
        w.boot()
        if cfg.get("short_timeout"):
            res.probe("response_held_past_the_instance_deadline")
        r = w.post("/start-instance", {"timeout": {"minutes": 5} if cfg.get("short_timeout") else
                                       {"hours": 12} if any(a["a"] == "advance" for a in case["choreo"]) else {"minutes": 10}})
        inst = r.body["instance_uuid"]
        r = w.post("/%s/begin-session" % inst, BEGIN)
        for j in range(cfg.get("pre", 0)):
            w.post("/%s/run-step" % inst, {"settings": {}}, tag="pre%d" % j)
        held = {}        # name -> dict(resp, it, state, accepted)
        resets = 0
        stepped_any = False
        has_session = [True]

        def in_progress():
            return [h for h, d in held.items() if d["accepted"] and d["state"] == "open"]

        def judge(n, what, status, body, prog):
            refused = _locked_error(status, body)
            accepted = status == 200 and not (isinstance(body, dict) and "error" in body)
            if prog and not refused:
                res.violate("C18.a-accepted-while-multistep-in-progress", {"action": n, "request": what, "status": status,
                                                                          "in_progress": prog, "choreo": case["choreo"][:n + 1][-6:]})
            if not prog and (refused or (has_session[0] and not accepted)):
                # nothing is in progress: the request must not be refused as locked; with a live session it must be served
                # (without a session it legitimately fails with "no data")
                res.violate("C18.f-lock-not-released", {"action": n, "request": what, "status": status, "body": str(body)[:120],
                                                        "session": has_session[0], "after": [a for a in case["choreo"][:n]][-5:]})

        def pull(d, tag):
            prev = w.cur_req
            w.cur_req = tag
            try:
                return next(d["it"])
            finally:
                w.cur_req = prev

        try:
            for n, a in enumerate(case["choreo"]):
                log.add("act", n, a)
                if a["a"] == "advance":
                    w.clock.advance(a["us"])
                    if in_progress():
                        res.probe("time_passes_while_stream_held")
                    continue
                if a["a"] == "open_drop":
                    # the client is gone before the first byte: the WSGI server closes the response iterable without ever
                    # pulling from it (the test client always pre-fetches one chunk, so the WSGI callable is driven directly)
                    from werkzeug.test import EnvironBuilder
                    prog = in_progress()
                    eb = EnvironBuilder(path="/%s/stream-steps" % inst, method="POST", json={"settings": {}})
                    env = eb.get_environ()
                    got = {}

                    def start_response(status, headers, exc_info=None):
                        got["status"] = int(status.split()[0])
                    prev = w.cur_req
                    w.cur_req = "drop%d" % n
                    try:
                        iterable = w.app(env, start_response)
                        if hasattr(iterable, "close"):
                            iterable.close()
                    finally:
                        w.cur_req = prev
                        eb.close()
                    res.probe("stream_dropped_before_first_chunk")
                    res.fault("client_disconnect")
                    continue
                if a["a"] == "open":
                    prog = in_progress()
                    client = w.app.test_client()
                    prev = w.cur_req
                    w.cur_req = "h" + a["h"]
                    try:
                        if a.get("other_thread"):
                            # the WSGI server may run the view on one thread and stream the body from another: the view runs
                            # on a thread of its own here (started and joined at once, so the history stays sequential), the
                            # body is read and closed on this one
                            import threading
                            box_ = {}

                            def _view():
                                box_["r"] = client.open("/%s/stream-steps" % inst, method="POST", json={"settings": {}}, buffered=False)
                            th_ = threading.Thread(target=_view)
                            th_.start()
                            th_.join()
                            rr = box_["r"]
                            res.probe("view_and_body_on_different_threads")
                        else:
                            rr = client.open("/%s/stream-steps" % inst, method="POST", json={"settings": {}}, buffered=False)
                    finally:
                        w.cur_req = prev
                    it = iter(rr.response)
                    first = None
                    try:
                        first = next(it)
                    except StopIteration:
                        pass
                    except Exception:
                        pass
                    first = first.decode() if isinstance(first, bytes) else first
                    body = None
                    if first is not None and first.strip().startswith("{"):
                        try:
                            body = json.loads(first)
                        except Exception:
                            body = None
                    accepted = rr.status_code == 200 and not (isinstance(body, dict) and "error" in body)
                    if not has_session[0]:
                        # without a session the stream cannot step; it must still not leave the lock behind once it ends.
                        # Drain it right away so that it is not counted as "in progress".
                        try:
                            for _ in it:
                                pass
                        except Exception:
                            pass
                        held[a["h"]] = {"resp": rr, "it": it, "state": "exhausted", "accepted": False}
                        try:
                            rr.close()
                        except Exception:
                            pass
                        held[a["h"]]["state"] = "closed"
                        continue
                    held[a["h"]] = {"resp": rr, "it": it, "state": "open", "accepted": accepted}
                    res.probe("held_stream")
                    judge(n, "stream-steps(open)", rr.status_code, body if body is not None else {}, prog)
                    if not accepted:
                        held[a["h"]]["state"] = "exhausted"
                elif a["a"] == "read":
                    d = held.get(a["h"])
                    if d is None or d["state"] != "open":
                        continue
                    cnt = 0
                    while a["n"] is None or cnt < a["n"]:
                        try:
                            pull(d, "h" + a["h"])
                            cnt += 1
                        except StopIteration:
                            d["state"] = "exhausted"
                            break
                        except Exception:
                            d["state"] = "exhausted"
                            break
                elif a["a"] == "close":
                    d = held.get(a["h"])
                    if d is None or d["state"] == "closed":
                        continue
                    if d["state"] == "exhausted":
                        res.probe("late_close_of_finished_stream")
                    try:
                        d["resp"].close()
                    except Exception:
                        pass
                    d["state"] = "closed"
                else:
                    kind = a["kind"]
                    prog = in_progress()
                    if kind == "restore":
                        # the instance is brought back from its externalised state (whole-server load): the first stepping request
                        # after that replays the session lazily - inside that request's lock
                        if cfg.get("adapter") and has_session[0] and not prog and any(e[4] for e in w.step_events):
                            rr = w.post("/load-state")
                            resets += 1
                            res.probe("instance_restored_during_choreography")
                    elif kind == "new_session":
                        w.post("/%s/end-session" % inst)
                        w.post("/%s/begin-session" % inst, BEGIN)
                        has_session[0] = True
                        resets += 1
                        res.probe("session_restarted_during_choreography")
                    elif kind == "end_session":
                        w.post("/%s/end-session" % inst)
                        has_session[0] = False
                        resets += 1
                        res.probe("stepping_without_session")
                    elif kind == "begin_session":
                        w.post("/%s/begin-session" % inst, BEGIN)
                        has_session[0] = True
                        resets += 1
                    elif kind == "results":
                        w.get("/%s/session-results" % inst)
                    elif kind == "keep_alive":
                        w.post("/%s/keep-alive" % inst)
                    elif kind in ("run_step", "run_steps", "stream_full"):
                        sf = a.get("save_fault") if (cfg.get("adapter") and not prog and has_session[0]) else None
                        if sf:
                            w.fs.armed = {"kind": sf}
                        if kind == "run_step":
                            rr = w.post("/%s/run-step" % inst, {"settings": {}}, tag="q%d" % n)
                        elif kind == "run_steps":
                            rr = w.post("/%s/run-steps" % inst, {"settings": {}, "numberSteps": a.get("n", 2)}, tag="q%d" % n)
                        else:
                            rr, _, parts = w.stream("/%s/stream-steps" % inst, {"settings": {}}, tag="q%d" % n)
                        fired = sf and w.fs.armed is None
                        w.fs.armed = None
                        if fired:
                            # the request itself may fail (its state could not be stored); what is judged is what comes after it
                            res.fault("state_store_error")
                            res.probe("save_failed_during_stepping_request")
                            resets += 1     # (its steps may or may not have been handed out: no contiguity verdict for this run)
                        else:
                            judge(n, {"run_step": "run-step", "run_steps": "run-steps", "stream_full": "stream-steps"}[kind], rr.status,
                                  rr.body if rr.body is not None else {}, prog)
                if res.violations:
                    break
            # the steps of one held stream are contiguous among all steps unless the session was restarted in between
            if not res.violations and resets == 0:
                events = [e for e in w.step_events if e[4]]
                order = [e[1] for e in events]
                for h in held:
                    idx = [k for k, t in enumerate(order) if t == "h" + h]
                    if idx and idx != list(range(idx[0], idx[0] + len(idx))):
                        res.violate("C18.a-interleaved", {"request": "h" + h, "kind": "stream", "intruders": sorted({order[k] for k in range(idx[0], idx[-1] + 1)} - {"h" + h})})
                befores = [e[2] for e in events]
                dup = sorted({t for t in befores if befores.count(t) > 1})
                if dup:
                    res.violate("C18.c-time-twice", {"times": dup})
            if not res.violations and not in_progress():
                if not has_session[0]:
                    w.post("/%s/begin-session" % inst, BEGIN)
                fr = w.post("/%s/run-step" % inst, {"settings": {}}, tag="followup")
                if fr.status != 200:
                    res.violate("C18.f-lock-not-released", {"status": fr.status, "body": fr.body, "after": ["choreography"]})
        finally:
            for d in held.values():
                try:
                    d["resp"].close()
                except Exception:
                    pass
    res.sim_units = len(case["choreo"])
    res.nontrivial = len(held) > 0 and len(case["choreo"]) > 3
    res.digest = log.digest()
    return res


def execute(case):
    if case.get("choreo") is not None:
        return execute_choreo(case)
    log = EventLog()
    res = RunResult()
    cfg = case["config"]
    wcfg = {"model": cfg["model"], "adapter": cfg.get("adapter"), "threads": "auto", "replays_are_internal": bool(cfg.get("restore_before"))}
    start = cfg["model"]["start"]
    dt = cfg["model"]["dt"]
    clients = case["clients"]
    records = [None] * len(clients)
    with ServerWorld(wcfg, log, res) as w:
        w.boot()
        r = w.post("/start-instance", {"timeout": {"minutes": 10}})
        inst = r.body["instance_uuid"]
        r = w.post("/%s/begin-session" % inst, BEGIN)
        assert r.status == 200, r.text
        for j in range(cfg.get("pre", 0)):
            r = w.post("/%s/run-step" % inst, {"settings": {}}, tag="pre%d" % j)
            assert r.status == 200, r.text
        if cfg.get("restore_before") and cfg.get("adapter") and cfg.get("pre", 0) >= 1:
            # the instance comes back from its externalised state right before the clients arrive: the first stepping request
            # replays the session lazily - under ITS lock, whatever the others do meanwhile
            rr = w.post("/load-state")
            assert rr.status == 200, rr.text
            res.probe("clients_race_on_a_restored_session")

        def mk(i, c):
            tag = "c%d" % i

            def run():
                log.add("invoke", tag, c)
                rec = {"tag": tag, "kind": c["kind"], "times": [], "complete": True, "refused": False,
                       "status": None, "failed": False, "bad_shape": False}
                if c.get("raise_at") is not None:
                    w.raise_at[tag] = c["raise_at"]
                    w.raise_where[tag] = c.get("raise_where", "before")
                    if c.get("raise_where") == "inside":
                        res.probe("exception_inside_a_step")
                if c["kind"] in ("results", "keep_alive"):
                    rr = w.get("/%s/session-results" % inst, tag=tag) if c["kind"] == "results" else w.post("/%s/keep-alive" % inst, tag=tag)
                    rec["status"] = rr.status
                    rec["noise"] = True
                    if rr.status != 200:
                        rec["failed"] = True
                    log.add("return", tag, rec["status"], [], False)
                    records[i] = rec
                    return rec
                if c.get("bad"):
                    res.fault("invalid_request")
                    res.probe("invalid_request_sent")
                    rr = bad_request(w, inst, c, tag)
                    rec["status"] = rr.status
                    rec["invalid"] = True
                    if rr.status == 200 and rr.body is not None:
                        # an invalid request that is served anyway: whatever steps it reports count
                        lst = rr.body if isinstance(rr.body, list) else [rr.body]
                        for d in lst:
                            ts = times_of_step_result(d)
                            if ts is not None:
                                rec["times"] += ts
                elif c["kind"] == "run_step":
                    body = {"settings": {}} if c.get("body", True) else None
                    rr = w.post("/%s/run-step" % inst, body, tag=tag)
                    rec["status"] = rr.status
                    if rr.status == 200:
                        ts = times_of_step_result(rr.body)
                        if ts is not None:
                            rec["times"] = ts
                        elif not (isinstance(rr.body, dict) and "msg" in rr.body):
                            rec["bad_shape"] = True
                elif c["kind"] == "run_steps":
                    rr = w.post("/%s/run-steps" % inst, {"settings": {}, "numberSteps": c["n"]}, tag=tag)
                    rec["status"] = rr.status
                    if rr.status == 200:
                        if isinstance(rr.body, list):
                            for d in rr.body:
                                ts = times_of_step_result(d)
                                if ts is not None:
                                    rec["times"] += ts
                                elif not (isinstance(d, dict) and "msg" in d):
                                    rec["bad_shape"] = True
                        else:
                            rec["bad_shape"] = True
                else:
                    body = {"settings": {}} if c.get("body", True) else None
                    rr, early, parts = w.stream("/%s/stream-steps" % inst, body, tag=tag, chunks=c.get("chunks"))
                    rec["status"] = rr.status
                    if early:
                        res.fault("client_disconnect")
                        res.probe("disconnect_mid_stream")
                        log.add("fault", "client_disconnect", tag, c.get("chunks"))
                        rec["complete"] = False
                    if rr.status == 200 and not (isinstance(rr.body, dict) and "error" in rr.body):
                        for d in _parse_stream_parts(parts):
                            ts = times_of_step_result(d)
                            if ts is not None:
                                rec["times"] += ts
                        if not early and rr.body is None:
                            rec["complete"] = False     # stream ended without the closing bracket
                        if not early and rr.body is not None:
                            res.probe("stream_completed")
                if rec["status"] != 200 or (isinstance(rr.body, dict) and "error" in rr.body):
                    if isinstance(rr.body, dict) and "lock" in str(rr.body.get("error", "")):
                        rec["refused"] = True
                        res.probe("refused_while_locked")
                    else:
                        rec["failed"] = True
                log.add("return", tag, rec["status"], rec["times"], rec["refused"])
                records[i] = rec
                return rec
            run.__name__ = tag
            return run

        pol = make_policy(case.get("sched") or {"kind": "default"})
        sched = Scheduler(pol, TRACE, log=log, critical_funcs=CRITICAL)
        deadlock = False
        n_pre_events = len(w.step_events)
        with sched:
            first_point = sched.points
            try:
                out = run_tasks(sched, [mk(i, c) for i, c in enumerate(clients)])
            except Deadlock:
                deadlock = True
                out = []
        for o in out:
            if o and o[0] == "exc":
                raise o[1]
        res.points = sched.points
        res.sim_units = sched.points
        res.extra["first_point"] = first_point
        res.interleaving = sched.interleaving_hash()
        res.sched = {"kind": "replay", "preemptions": sched.taken}
        if w.step_calls and any(v for k, v in w.raise_at.items() if w.step_calls.get(k, 0) > v):
            res.probe("exception_mid_request")
        line_switches = [e for e in log.of_kind("switch") if e[4] not in ("block", "finish", "deadlock")]
        if line_switches:
            res.fault("preemption", len(line_switches))
            if any("run_step" in e[4] for e in line_switches):
                res.probe("preempted_inside_run_step")
        res.nontrivial = bool(line_switches) or bool(res.faults)
        # "the lock check was passed by two tasks before either locked": some task A entered
        # is_locked and later lock, and another task entered is_locked in between
        crit = sched.crit
        hit = False
        for a in range(len(crit)):
            if crit[a][1] != "is_locked" or hit:
                continue
            for b in range(a + 1, len(crit)):
                if crit[b][0] == crit[a][0] and crit[b][1] == "lock":
                    if any(crit[m][1] == "is_locked" and crit[m][0] != crit[a][0] for m in range(a + 1, b)):
                        hit = True
                    break
                if crit[b][0] == crit[a][0] and crit[b][1] in ("is_locked", "unlock"):
                    break
        if hit:
            res.probe("two_requests_passed_lock_check")

        # ---------------- oracle over the history
        if deadlock or sched.capped:
            res.violate("C18.g-no-progress", {"deadlock": deadlock, "capped": sched.capped})
        if not deadlock:
            recs = [r for r in records if r is not None]
            events = [e for e in w.step_events if e[4]]          # advanced steps only
            conc = [e for e in events if e[1].startswith("c")]
            # (a) steps of a multi-step request are contiguous among all steps
            order = [e[1] for e in events]
            for rec in recs:
                if rec["kind"] in ("run_steps", "stream"):
                    idx = [k for k, t in enumerate(order) if t == rec["tag"]]
                    if idx and idx != list(range(idx[0], idx[0] + len(idx))):
                        inter = sorted({order[k] for k in range(idx[0], idx[-1] + 1)} - {rec["tag"]})
                        res.violate("C18.a-interleaved", {"request": rec["tag"], "kind": rec["kind"],
                                                          "intruders": inter,
                                                          "intruder_kinds": sorted({clients[int(t[1:])]["kind"] for t in inter})})
            # (read-only requests in flight next to the stepping ones are perturbation only: whether THEY are served is
            #  not part of C18 - session-results can fail with "dictionary changed size during iteration" - and is not judged)
            for rec in recs:
                if rec.get("noise") and rec["status"] != 200:
                    res.probe("read_request_failed_during_stepping")
            # (b) each response lists consecutive grid times
            for rec in recs:
                ts = rec["times"]
                if rec["bad_shape"] or any(not feq(b - a, dt) for a, b in zip(ts, ts[1:])):
                    res.violate("C18.b-not-consecutive", {"request": rec["tag"], "kind": rec["kind"], "times": ts})
            # (c) no simulation time twice
            befores = [e[2] for e in events]
            dup = sorted({t for t in befores if befores.count(t) > 1})
            alltimes = [t for rec in recs for t in rec["times"]]
            dup_resp = sorted({t for t in alltimes if alltimes.count(t) > 1})
            if dup or dup_resp:
                who = sorted({e[1] for e in events if e[2] in dup})
                res.violate("C18.c-time-twice", {"times": dup or dup_resp,
                                                 "requests": who,
                                                 "kinds": sorted({clients[int(t[1:])]["kind"] for t in who if t.startswith("c")})})
            # (d) clock advanced by exactly the number of steps returned
            fm = w.full_metrics()
            clock = fm.get(inst, {}).get("step")
            n_ret = sum(len(rec["times"]) for rec in recs)
            n_steps = len(conc)
            expected_clock = start + dt * (cfg.get("pre", 0) + n_ret)
            if clock is None or not feq(clock, expected_clock) or n_ret != n_steps:
                res.violate("C18.d-clock", {"clock": clock, "expected": expected_clock, "returned": n_ret,
                                            "executed": n_steps})
            # (f) the lock is free afterwards: the very next run-step is accepted
            fr = w.post("/%s/run-step" % inst, {"settings": {}}, tag="followup")
            if fr.status != 200:
                how = []
                for rec, c in zip(recs, clients):
                    if c.get("bad"):
                        how.append(c["kind"] + "_invalid_" + c["bad"])
                    elif rec["kind"] != "run_step" and not rec["refused"]:
                        how.append("stream_completed" if (c["kind"] == "stream" and rec["complete"] and c.get("raise_at") is None)
                                   else "stream_disconnected" if c["kind"] == "stream" and not rec["complete"] and c.get("raise_at") is None
                                   else c["kind"] + ("_exception" if c.get("raise_at") is not None else ""))
                res.violate("C18.f-lock-not-released", {"status": fr.status, "body": fr.body, "after": sorted(how)})
            # (e) session-results contains exactly the union of the steps taken
            sr = w.get("/%s/session-results" % inst)
            got = set()
            try:
                eqs = sr.body["smA"]["base"]["equations"]
                for eq, tv in eqs.items():
                    got |= {float(t) for t in tv}
            except Exception:
                got = None
            want = {float(e[2]) for e in w.step_events if e[4]}
            if got is None and want:
                res.violate("C18.e-session-results", {"status": sr.status, "body": str(sr.text)[:200]})
            elif got is not None and got != want and not dup:
                res.violate("C18.e-session-results", {"missing": sorted(want - got), "extra": sorted(got - want)})
    res.digest = log.digest()
    return res


# ------------------------------------------------------------------ shrinking, findings

def shrink(case):
    if case.get("choreo") is not None:
        for cand in shrink_list(case["choreo"], min_len=1):
            c = copy.deepcopy(case)
            c["choreo"] = copy.deepcopy(cand)
            yield c
        if case["config"].get("pre"):
            c = copy.deepcopy(case)
            c["config"]["pre"] = 0
            yield c
        return
    yield from shrink_sched(case)
    # fewer clients (only with default/random schedules: replay lists name task ids)
    if len(case["clients"]) > 2:
        for cand in shrink_list(case["clients"], min_len=2):
            c = copy.deepcopy(case)
            c["clients"] = cand
            yield c
    if case["config"].get("pre", 0) > 0:
        c = copy.deepcopy(case)
        c["config"]["pre"] = 0
        yield c
    if case["config"].get("adapter"):
        c = copy.deepcopy(case)
        c["config"]["adapter"] = None
        yield c
    for i, cl in enumerate(case["clients"]):
        if cl.get("raise_at") is not None:
            c = copy.deepcopy(case)
            c["clients"][i].pop("raise_at")
            yield c
        if cl["kind"] == "run_steps" and cl.get("n", 0) > 2 and cl.get("raise_at") is None:
            c = copy.deepcopy(case)
            c["clients"][i]["n"] = 2
            yield c


def _concurrent_kinds(case):
    return sorted(c["kind"] for c in case["clients"])


def trigger(case, v, f):
    t = f["trigger"]["kind"]
    if t == "concurrent_requests":
        return len(case["clients"]) >= 2
    if t == "stream_completed_normally":
        return any(c["kind"] == "stream" and c.get("chunks") is None and c.get("raise_at") is None
                   for c in case["clients"])
    return False


def neutralise(case, v, f):
    t = f["trigger"]["kind"]
    c = copy.deepcopy(case)
    if t == "concurrent_requests":
        # serialise: the same requests, one after the other, no pre-emption
        c["sched"] = {"kind": "default"}
        return c
    if t == "stream_completed_normally":
        # turn every normally completing stream into a run-steps request covering the rest
        for cl in c["clients"]:
            if cl["kind"] == "stream" and cl.get("chunks") is None and cl.get("raise_at") is None:
                cl["kind"] = "run_steps"
                cl["n"] = 3
        return c
    return None
