"""C18  Step-advancing requests on one instance never interleave.

System under simulation: real BptkServer / InstanceManager / bptk / SdRunner / SdSimulation,
one instance with a live session.  2-3 client tasks issue one step-advancing request each;
the simulator decides, at every source line of bptkServer.py / bptk.py / sd_runner.py, which
client runs.  Faults: client disconnect mid-stream, exception inside a step.
Oracle: invariants over the recorded history (see DESIGN.md, C18 (a)-(g)).
"""
import copy
import json
import random

from sim.core import EventLog, RunResult, derive_seed
from sim.threads import Scheduler, make_policy, run_tasks, Deadlock
from worlds.server_world import ServerWorld
from checks.common import shrink_list, shrink_sched, times_of_step_result, feq

PROPERTY = "C18"
LEVEL = "exploration"
SIM_UNIT = "scheduling points"
CHUNK = 6
TRACE = ("server/bptkServer.py", "BPTK_Py/bptk.py", "scenariorunners/sd_runner.py")
CRITICAL = ("is_locked", "lock", "unlock", "run_step", "progress", "release_lock")
INTERLEAVING_MEASURE = ("distinct sequences of (task, function) over entries into is_locked/lock/unlock/"
                        "run_step/progress of bptk.py and bptkServer.py during the concurrent phase")
RULE = ("a run = one instance with a live session + 2-3 concurrent step-advancing requests (kinds: run-step, "
        "run-steps(n), stream-steps consumed fully, stream-steps closed after m chunks, optionally an injected "
        "exception in the j-th step; invalid requests: JSON without a required key, malformed JSON, no JSON) executed under one schedule (random(p), pct(d), single-pre-emption sweep or "
        "default); non-trivial = at least one task switch happened at a source-line pre-emption point while two "
        "requests were in flight, or a fault (disconnect/exception) fired; distinct = distinct event-log digest")
REAL = ["BPTK_Py.server.bptkServer (handlers, token_required, InstanceManager)", "BPTK_Py.bptk (begin_session, "
        "run_step, lock/unlock, session_results)", "BPTK_Py.scenariorunners.sd_runner", "BPTK_Py.sdsimulation",
        "BPTK_Py.modeling.model + SD DSL", "Flask routing/request parsing", "werkzeug test client (in-process WSGI)",
        "jsonpickle", "pandas"]
STUB = ["choice of the running thread (baton scheduler)", "uuid source", "wall clock", "TCP/HTTP server loop",
        "SdSimulation worker threads run under the same scheduler (untraced code, atomic between points)"]
ASSUMPTIONS = ["code outside the traced files is atomic between two pre-emption points",
               "request loss/duplication not injected: no property promises idempotent retry",
               "sampling over schedules, not proof; the single-pre-emption sweep is complete only for the sampled request pairs"]
FAULT_KINDS = ["preemption", "client_disconnect", "step_exception", "invalid_request"]
PROBES = ["invalid_request_sent", "disconnect_mid_stream", "exception_mid_request",
          "refused_while_locked", "stream_completed", "preempted_inside_run_step"]
EXHAUSTIVE = {"quick": False, "thorough": False}

KINDS = ["run_step", "run_step_nobody", "run_steps", "stream", "stream_disc", "run_steps_exc", "stream_exc",
         "run_step_bad", "run_steps_bad", "stream_bad", "stream_nobody", "results", "keep_alive"]


def client_of(kind, rng):
    if kind == "run_step":
        return {"kind": "run_step", "body": True}
    if kind == "run_step_nobody":
        return {"kind": "run_step", "body": False}
    if kind == "run_steps":
        return {"kind": "run_steps", "n": rng.choice([2, 3, 4])}
    if kind == "stream":
        return {"kind": "stream", "chunks": None, "body": rng.random() < 0.7}
    if kind == "stream_disc":
        return {"kind": "stream", "chunks": rng.choice([1, 2, 3, 4, 5]), "body": True}
    if kind == "run_steps_exc":
        n = rng.choice([2, 3, 4])
        return {"kind": "run_steps", "n": n, "raise_at": rng.randrange(n)}
    if kind == "stream_exc":
        return {"kind": "stream", "chunks": None, "body": True, "raise_at": rng.choice([0, 1, 2])}
    if kind in ("results", "keep_alive"):
        return {"kind": kind}          # a request that does not advance anything, in flight next to the stepping ones
    if kind == "run_step_bad":
        return {"kind": "run_step", "bad": rng.choice(["no_settings", "malformed"])}
    if kind == "run_steps_bad":
        return {"kind": "run_steps", "n": 2, "bad": rng.choice(["no_settings", "no_number", "malformed", "not_json"])}
    if kind == "stream_bad":
        return {"kind": "stream", "chunks": None, "bad": rng.choice(["no_settings", "malformed"])}
    if kind == "stream_nobody":
        return {"kind": "stream", "chunks": None, "body": False}
    raise ValueError(kind)


def bad_request(w, inst, c, tag):
    """a request an imperfect client might send: valid JSON without a required key, malformed JSON, no JSON at all"""
    path = "/%s/%s" % (inst, {"run_step": "run-step", "run_steps": "run-steps", "stream": "stream-steps"}[c["kind"]])
    bad = c["bad"]
    if bad == "no_settings":
        body = {"numberSteps": 2} if c["kind"] == "run_steps" else {"flatResults": False}
        return w.post(path, body, tag=tag)
    if bad == "no_number":
        return w.post(path, {"settings": {}}, tag=tag)
    if bad == "malformed":
        return w.request("POST", path, raw=b'{"settings": {', content_type="application/json", tag=tag)
    return w.request("POST", path, raw=b"settings=1", content_type="text/plain", tag=tag)


def base_case(clients, sched, pre=1, stop=9.0, adapter=None):
    return {
        "property": PROPERTY,
        "config": {
            "model": {"template": "T1", "start": 1.0, "stop": stop, "dt": 1.0,
                      "managers": {"smA": {"base": {}}}},
            "adapter": adapter,
            "pre": pre,
        },
        "clients": clients,
        "sched": sched,
    }


# ------------------------------------------------------------------ plan / generate

PAIR_KINDS = ["run_step", "run_steps", "stream", "stream_disc", "run_steps_exc", "stream_exc", "run_step_nobody", "stream_bad", "run_steps_bad", "run_step_bad"]


def plan(tier, verif_seed):
    i = 0
    # 1. directed, default schedule: every kind alone and every ordered pair, serialised
    for k in KINDS:
        yield {"i": i, "mode": "directed", "kinds": [k], "seed": derive_seed(verif_seed, PROPERTY, i), "keep_sample": i < 1}
        i += 1
    pairs = [(a, b) for a in PAIR_KINDS for b in PAIR_KINDS]
    for a, b in pairs:
        yield {"i": i, "mode": "directed", "kinds": [a, b], "seed": derive_seed(verif_seed, PROPERTY, i)}
        i += 1
    # 2. every ordered pair under sampled schedules
    reps = 10 if tier == "quick" else 40
    for rep in range(reps):
        for a, b in pairs:
            yield {"i": i, "mode": "random", "kinds": [a, b], "seed": derive_seed(verif_seed, PROPERTY, i),
                   "keep_sample": rep == 0 and (a, b) == ("run_steps", "stream")}
            i += 1
    # 3. triples
    rng = random.Random(derive_seed(verif_seed, PROPERTY, "triples"))
    for _ in range(60 if tier == "quick" else 400):
        ks = [rng.choice(PAIR_KINDS + ["results", "keep_alive"]) for _ in range(3)]
        yield {"i": i, "mode": "random", "kinds": ks, "seed": derive_seed(verif_seed, PROPERTY, i)}
        i += 1
    if tier != "thorough":
        return
    # 4. complete single-pre-emption sweep for every ordered pair of the five basic kinds
    sweep_kinds = ["run_step", "run_steps", "stream", "stream_disc", "run_steps_exc"]
    for a in sweep_kinds:
        for b in sweep_kinds:
            spec0 = {"i": i, "mode": "directed", "kinds": [a, b], "seed": derive_seed(verif_seed, PROPERTY, "sweep", a, b)}
            c0 = generate(spec0)
            r0 = execute(c0)
            first = r0.extra.get("first_point", 0)
            for k in range(first, r0.points):
                yield {"i": i, "mode": "sweep", "kinds": [a, b], "seed": spec0["seed"], "k": k}
                i += 1
    # 5. endless sampling (the runner stops at the budget)
    while True:
        n = rng.choice([2, 2, 2, 3])
        ks = [rng.choice(PAIR_KINDS) for _ in range(n)]
        yield {"i": i, "mode": "random", "kinds": ks, "seed": derive_seed(verif_seed, PROPERTY, i)}
        i += 1


def generate(spec):
    rng = random.Random(spec["seed"])
    clients = [client_of(k, rng) for k in spec["kinds"]]
    pre = rng.choice([0, 1, 2])
    stop = float(rng.choice([6, 8, 9, 12]))
    adapter = rng.choice([None, None, "plain"])
    mode = spec["mode"]
    if mode == "directed":
        sched = {"kind": "default"}
    elif mode == "sweep":
        # driver=0, clients are tasks 1..n in start order; by default the LAST client runs first
        # (depth-first), the single pre-emption hands the baton to the first one
        sched = {"kind": "replay", "preemptions": [[spec["k"], 1]]}
    else:
        r = rng.random()
        if r < 0.6:
            sched = {"kind": "random", "seed": rng.randrange(2**32), "p": rng.choice([0.01, 0.03, 0.1, 0.3])}
        else:
            sched = {"kind": "pct", "seed": rng.randrange(2**32), "depth": rng.choice([1, 2, 3]),
                     "est": rng.choice([150, 400, 900])}
    return base_case(clients, sched, pre=pre, stop=stop, adapter=adapter)


# ------------------------------------------------------------------ execute + oracle

BEGIN = {"scenario_managers": ["smA"], "scenarios": ["base"], "equations": ["stock", "flow"]}


def _parse_stream_parts(parts):
    steps = []
    for p in parts:
        p = p.strip()
        if p.startswith("{"):
            try:
                steps.append(json.loads(p))
            except Exception:
                steps.append(None)
    return steps


def execute(case):
    log = EventLog()
    res = RunResult()
    cfg = case["config"]
    wcfg = {"model": cfg["model"], "adapter": cfg.get("adapter"), "threads": "auto"}
    start = cfg["model"]["start"]
    dt = cfg["model"]["dt"]
    clients = case["clients"]
    records = [None] * len(clients)
    with ServerWorld(wcfg, log, res) as w:
        w.boot()
        r = w.post("/start-instance", {"timeout": {"minutes": 10}})
        inst = r.body["instance_uuid"]
        r = w.post("/%s/begin-session" % inst, BEGIN)
        assert r.status == 200, r.text
        for j in range(cfg.get("pre", 0)):
            r = w.post("/%s/run-step" % inst, {"settings": {}}, tag="pre%d" % j)
            assert r.status == 200, r.text

        def mk(i, c):
            tag = "c%d" % i

            def run():
                log.add("invoke", tag, c)
                rec = {"tag": tag, "kind": c["kind"], "times": [], "complete": True, "refused": False,
                       "status": None, "failed": False, "bad_shape": False}
                if c.get("raise_at") is not None:
                    w.raise_at[tag] = c["raise_at"]
                if c["kind"] in ("results", "keep_alive"):
                    rr = w.get("/%s/session-results" % inst, tag=tag) if c["kind"] == "results" else w.post("/%s/keep-alive" % inst, tag=tag)
                    rec["status"] = rr.status
                    rec["noise"] = True
                    if rr.status != 200:
                        rec["failed"] = True
                    log.add("return", tag, rec["status"], [], False)
                    records[i] = rec
                    return rec
                if c.get("bad"):
                    res.fault("invalid_request")
                    res.probe("invalid_request_sent")
                    rr = bad_request(w, inst, c, tag)
                    rec["status"] = rr.status
                    rec["invalid"] = True
                    if rr.status == 200 and rr.body is not None:
                        # an invalid request that is served anyway: whatever steps it reports count
                        lst = rr.body if isinstance(rr.body, list) else [rr.body]
                        for d in lst:
                            ts = times_of_step_result(d)
                            if ts is not None:
                                rec["times"] += ts
                elif c["kind"] == "run_step":
                    body = {"settings": {}} if c.get("body", True) else None
                    rr = w.post("/%s/run-step" % inst, body, tag=tag)
                    rec["status"] = rr.status
                    if rr.status == 200:
                        ts = times_of_step_result(rr.body)
                        if ts is not None:
                            rec["times"] = ts
                        elif not (isinstance(rr.body, dict) and "msg" in rr.body):
                            rec["bad_shape"] = True
                elif c["kind"] == "run_steps":
                    rr = w.post("/%s/run-steps" % inst, {"settings": {}, "numberSteps": c["n"]}, tag=tag)
                    rec["status"] = rr.status
                    if rr.status == 200:
                        if isinstance(rr.body, list):
                            for d in rr.body:
                                ts = times_of_step_result(d)
                                if ts is not None:
                                    rec["times"] += ts
                                elif not (isinstance(d, dict) and "msg" in d):
                                    rec["bad_shape"] = True
                        else:
                            rec["bad_shape"] = True
                else:
                    body = {"settings": {}} if c.get("body", True) else None
                    rr, early, parts = w.stream("/%s/stream-steps" % inst, body, tag=tag, chunks=c.get("chunks"))
                    rec["status"] = rr.status
                    if early:
                        res.fault("client_disconnect")
                        res.probe("disconnect_mid_stream")
                        log.add("fault", "client_disconnect", tag, c.get("chunks"))
                        rec["complete"] = False
                    if rr.status == 200 and not (isinstance(rr.body, dict) and "error" in rr.body):
                        for d in _parse_stream_parts(parts):
                            ts = times_of_step_result(d)
                            if ts is not None:
                                rec["times"] += ts
                        if not early and rr.body is None:
                            rec["complete"] = False     # stream ended without the closing bracket
                        if not early and rr.body is not None:
                            res.probe("stream_completed")
                if rec["status"] != 200 or (isinstance(rr.body, dict) and "error" in rr.body):
                    if isinstance(rr.body, dict) and "lock" in str(rr.body.get("error", "")):
                        rec["refused"] = True
                        res.probe("refused_while_locked")
                    else:
                        rec["failed"] = True
                log.add("return", tag, rec["status"], rec["times"], rec["refused"])
                records[i] = rec
                return rec
            run.__name__ = tag
            return run

        pol = make_policy(case.get("sched") or {"kind": "default"})
        sched = Scheduler(pol, TRACE, log=log, critical_funcs=CRITICAL)
        deadlock = False
        n_pre_events = len(w.step_events)
        with sched:
            first_point = sched.points
            try:
                out = run_tasks(sched, [mk(i, c) for i, c in enumerate(clients)])
            except Deadlock:
                deadlock = True
                out = []
        for o in out:
            if o and o[0] == "exc":
                raise o[1]
        res.points = sched.points
        res.sim_units = sched.points
        res.extra["first_point"] = first_point
        res.interleaving = sched.interleaving_hash()
        res.sched = {"kind": "replay", "preemptions": sched.taken}
        if w.step_calls and any(v for k, v in w.raise_at.items() if w.step_calls.get(k, 0) > v):
            res.probe("exception_mid_request")
        line_switches = [e for e in log.of_kind("switch") if e[4] not in ("block", "finish", "deadlock")]
        if line_switches:
            res.fault("preemption", len(line_switches))
            if any("run_step" in e[4] for e in line_switches):
                res.probe("preempted_inside_run_step")
        res.nontrivial = bool(line_switches) or bool(res.faults)
        # "the lock check was passed by two tasks before either locked": some task A entered
        # is_locked and later lock, and another task entered is_locked in between
        crit = sched.crit
        hit = False
        for a in range(len(crit)):
            if crit[a][1] != "is_locked" or hit:
                continue
            for b in range(a + 1, len(crit)):
                if crit[b][0] == crit[a][0] and crit[b][1] == "lock":
                    if any(crit[m][1] == "is_locked" and crit[m][0] != crit[a][0] for m in range(a + 1, b)):
                        hit = True
                    break
                if crit[b][0] == crit[a][0] and crit[b][1] in ("is_locked", "unlock"):
                    break
        if hit:
            res.probe("two_requests_passed_lock_check")

        # ---------------- oracle over the history
        if deadlock or sched.capped:
            res.violate("C18.g-no-progress", {"deadlock": deadlock, "capped": sched.capped})
        if not deadlock:
            recs = [r for r in records if r is not None]
            events = [e for e in w.step_events if e[4]]          # advanced steps only
            conc = [e for e in events if e[1].startswith("c")]
            # (a) steps of a multi-step request are contiguous among all steps
            order = [e[1] for e in events]
            for rec in recs:
                if rec["kind"] in ("run_steps", "stream"):
                    idx = [k for k, t in enumerate(order) if t == rec["tag"]]
                    if idx and idx != list(range(idx[0], idx[0] + len(idx))):
                        inter = sorted({order[k] for k in range(idx[0], idx[-1] + 1)} - {rec["tag"]})
                        res.violate("C18.a-interleaved", {"request": rec["tag"], "kind": rec["kind"],
                                                          "intruders": inter,
                                                          "intruder_kinds": sorted({clients[int(t[1:])]["kind"] for t in inter})})
            # (read-only requests in flight next to the stepping ones are perturbation only: whether THEY are served is
            #  not part of C18 - session-results can fail with "dictionary changed size during iteration" - and is not judged)
            for rec in recs:
                if rec.get("noise") and rec["status"] != 200:
                    res.probe("read_request_failed_during_stepping")
            # (b) each response lists consecutive grid times
            for rec in recs:
                ts = rec["times"]
                if rec["bad_shape"] or any(not feq(b - a, dt) for a, b in zip(ts, ts[1:])):
                    res.violate("C18.b-not-consecutive", {"request": rec["tag"], "kind": rec["kind"], "times": ts})
            # (c) no simulation time twice
            befores = [e[2] for e in events]
            dup = sorted({t for t in befores if befores.count(t) > 1})
            alltimes = [t for rec in recs for t in rec["times"]]
            dup_resp = sorted({t for t in alltimes if alltimes.count(t) > 1})
            if dup or dup_resp:
                who = sorted({e[1] for e in events if e[2] in dup})
                res.violate("C18.c-time-twice", {"times": dup or dup_resp,
                                                 "requests": who,
                                                 "kinds": sorted({clients[int(t[1:])]["kind"] for t in who if t.startswith("c")})})
            # (d) clock advanced by exactly the number of steps returned
            fm = w.full_metrics()
            clock = fm.get(inst, {}).get("step")
            n_ret = sum(len(rec["times"]) for rec in recs)
            n_steps = len(conc)
            expected_clock = start + dt * (cfg.get("pre", 0) + n_ret)
            if clock is None or not feq(clock, expected_clock) or n_ret != n_steps:
                res.violate("C18.d-clock", {"clock": clock, "expected": expected_clock, "returned": n_ret,
                                            "executed": n_steps})
            # (f) the lock is free afterwards: the very next run-step is accepted
            fr = w.post("/%s/run-step" % inst, {"settings": {}}, tag="followup")
            if fr.status != 200:
                how = []
                for rec, c in zip(recs, clients):
                    if c.get("bad"):
                        how.append(c["kind"] + "_invalid_" + c["bad"])
                    elif rec["kind"] != "run_step" and not rec["refused"]:
                        how.append("stream_completed" if (c["kind"] == "stream" and rec["complete"] and c.get("raise_at") is None)
                                   else "stream_disconnected" if c["kind"] == "stream" and not rec["complete"] and c.get("raise_at") is None
                                   else c["kind"] + ("_exception" if c.get("raise_at") is not None else ""))
                res.violate("C18.f-lock-not-released", {"status": fr.status, "body": fr.body, "after": sorted(how)})
            # (e) session-results contains exactly the union of the steps taken
            sr = w.get("/%s/session-results" % inst)
            got = set()
            try:
                eqs = sr.body["smA"]["base"]["equations"]
                for eq, tv in eqs.items():
                    got |= {float(t) for t in tv}
            except Exception:
                got = None
            want = {float(e[2]) for e in w.step_events if e[4]}
            if got is None and want:
                res.violate("C18.e-session-results", {"status": sr.status, "body": str(sr.text)[:200]})
            elif got is not None and got != want and not dup:
                res.violate("C18.e-session-results", {"missing": sorted(want - got), "extra": sorted(got - want)})
    res.digest = log.digest()
    return res


# ------------------------------------------------------------------ shrinking, findings

def shrink(case):
    yield from shrink_sched(case)
    # fewer clients (only with default/random schedules: replay lists name task ids)
    if len(case["clients"]) > 2:
        for cand in shrink_list(case["clients"], min_len=2):
            c = copy.deepcopy(case)
            c["clients"] = cand
            yield c
    if case["config"].get("pre", 0) > 0:
        c = copy.deepcopy(case)
        c["config"]["pre"] = 0
        yield c
    if case["config"].get("adapter"):
        c = copy.deepcopy(case)
        c["config"]["adapter"] = None
        yield c
    for i, cl in enumerate(case["clients"]):
        if cl.get("raise_at") is not None:
            c = copy.deepcopy(case)
            c["clients"][i].pop("raise_at")
            yield c
        if cl["kind"] == "run_steps" and cl.get("n", 0) > 2 and cl.get("raise_at") is None:
            c = copy.deepcopy(case)
            c["clients"][i]["n"] = 2
            yield c


def _concurrent_kinds(case):
    return sorted(c["kind"] for c in case["clients"])


def trigger(case, v, f):
    t = f["trigger"]["kind"]
    if t == "concurrent_requests":
        return len(case["clients"]) >= 2
    if t == "stream_completed_normally":
        return any(c["kind"] == "stream" and c.get("chunks") is None and c.get("raise_at") is None
                   for c in case["clients"])
    return False


def neutralise(case, v, f):
    t = f["trigger"]["kind"]
    c = copy.deepcopy(case)
    if t == "concurrent_requests":
        # serialise: the same requests, one after the other, no pre-emption
        c["sched"] = {"kind": "default"}
        return c
    if t == "stream_completed_normally":
        # turn every normally completing stream into a run-steps request covering the rest
        for cl in c["clients"]:
            if cl["kind"] == "stream" and cl.get("chunks") is None and cl.get("raise_at") is None:
                cl["kind"] = "run_steps"
                cl["n"] = 3
        return c
    return None
