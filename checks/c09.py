"""C09  Every way of obtaining results reports the same numbers on the same grid.

For one scenario and one equation list the channels
    batch      run_scenarios in df, dict and json (also next to a second scenario with another run spec)
    session    begin_session, run_step ..., session_results (both indexings, flat and not)
    REST       /run, begin-session, run-step, run-steps, stream-steps, session-results, flat-session-results
are executed one after the other on fresh instances.  The simulator decides the PARTITION of
the run into stepping requests, the per-step settings and the requested-equation subset.
Oracle: (i) one entry per decimal grid point from start to stop, labelled with the decimal
value; (ii) the same number as the batch dataframe for the same (equation, time); (iii) a
setting passed with step k affects the entries from step k on and none before - checked against
the template's closed-form rational recurrence with piecewise-constant parameters.
"""
import copy
import json
import random

from sim.core import EventLog, RunResult, derive_seed, canon_json
from sim import patches
from checks.common import shrink_list, times_of_step_result
from models import sd_templates as T
from worlds.scenario_world import ScenarioWorld
from worlds.server_world import ServerWorld

PROPERTY = "C09"
LEVEL = "exploration"
SIM_UNIT = "session steps"
CHUNK = 8
RULE = ("a run = one run spec (start in {0,1,2.5}, dt in {1,0.5,0.25,0.2,0.1,0.05}, 4-15 steps) x template T1-T3 x requested "
        "equation subset x partition of the run into run-step / run-steps(n) / stream-steps requests x optional per-step "
        "settings, executed through every channel (batch df/dict/json, Python session, REST) on fresh instances; "
        "non-trivial = dt is not 1 or the partition mixes at least two request kinds or a per-step setting is present; "
        "distinct = distinct event-log digest")
REAL = ["BPTK_Py.bptk (run_scenarios, begin_session, run_step, session_results)", "BPTK_Py.scenariorunners.sd_runner (df/dict/json assembly, run_scenario_step)",
        "BPTK_Py.sdsimulation", "BPTK_Py.server.bptkServer (run, begin-session, run-step, run-steps, stream-steps, session-results, flat-session-results)",
        "BPTK_Py.util.floating_point", "BPTK_Py.modeling.model + SD DSL", "pandas", "jsonpickle", "Flask", "werkzeug test client"]
STUB = ["SdSimulation worker threads run serially", "wall clock, uuid source", "HTTP transport"]
ASSUMPTIONS = ["the look-back template T5 (delay of a constant) runs on the start time it was built with: the DSL writes the model's start time into the generated delay function at definition time, so T5 is not combined with run specs in the begin-session settings",
               "values are compared numerically after JSON parsing (a lookup can yield the integer 0 where the batch frame has 0.0)",
               "clause (iii) uses the closed-form template reference with relative tolerance 1e-9",
               "stream-steps comes last in a partition (it runs to the stop time)"]
FAULT_KINDS = []
PROBES = ["session_begun_after_the_scenario_start", "failed_step_request_retried", "stop_time_off_the_grid", "bystander_scenario_on_another_grid", "two_managers_different_runspecs", "earlier_session_not_ended", "decimal_dt", "fractional_start", "mixed_partition", "per_step_settings", "equation_subset_without_dependencies", "two_scenarios_different_runspecs",
          "stream_in_partition", "points_step_setting", "runspecs_in_session_settings", "flat_results_requested", "two_scenarios_in_one_session", "scenario_level_constants"]
EXHAUSTIVE = {"quick": False, "thorough": False}

STARTS = [0.0, 1.0, 2.5]
DTS = [1.0, 0.5, 0.25, 0.2, 0.1, 0.05]
MGR, SCN = "smA", "base"


def plan(tier, verif_seed):
    n = 480 if tier == "quick" else 10**9
    for i in range(n):
        yield {"i": i, "seed": derive_seed(verif_seed, PROPERTY, i), "keep_sample": i < 2}


def gen_partition(rng, nsteps):
    parts = []
    left = nsteps
    while left > 0:
        r = rng.random()
        if r < 0.5:
            parts.append({"kind": "run_step"})
            left -= 1
        elif r < 0.85:
            n = min(left, rng.choice([1, 2, 3, 4]))
            parts.append({"kind": "run_steps", "n": n})
            left -= n
        else:
            parts.append({"kind": "stream"})
            left = 0
        if rng.random() < 0.2:
            parts[-1]["flat"] = True        # REST flatResults flag
    return parts


def gen_step_settings(rng, template, nsteps):
    out = {}
    for k in rng.sample(range(nsteps), rng.choice([1, 1, 2])):
        s = {}
        if T.TABLES[template] and rng.random() < 0.35:
            tb = rng.choice(T.TABLES[template])
            s["points"] = {tb: [[0.0, rng.choice([0.5, 2.0])], [4.0, rng.choice([0.0, 3.0])], [30.0, 1.0]]}
        else:
            cs = rng.sample(T.CONSTANTS[template], min(len(T.CONSTANTS[template]), rng.choice([1, 1, 2, 3])))
            vals = rng.sample([0.0, 0.5, 2.0, 3.0, 7.0], len(cs))         # several constants in one step get DIFFERENT values
            s["constants"] = {c: v for c, v in zip(cs, vals)}
        out[str(k)] = s
    return out


def generate(spec):
    rng = random.Random(spec["seed"])
    template = rng.choice(["T1", "T1", "T2", "T3", "T5"])
    start = rng.choice(STARTS)
    dt = rng.choice(DTS) if template != "T5" else rng.choice([1.0, 0.5, 0.25, 0.2])      # (T5's look-back spans 1.0: a few steps)
    nsteps = rng.choice([4, 5, 7, 10, 15])           # grid points
    stop = float(T.grid(start, start + dt * (nsteps - 1) + dt / 2, dt)[-1])
    off_grid = None
    if rng.random() < 0.15:
        # a stop time that is not a grid point: more decimals than start and dt (between two grid points), or a computed value
        # a hair below the next grid point (3 * 0.3 = 0.8999999999999999): every channel ends at the last grid point <= stop
        import math
        off_grid = rng.choice(["between", "between", "hair_below_next"])
        if off_grid == "between":
            stop = float(T.dec(stop) + T.dec(dt) * T.dec(rng.choice([0.7, 0.3, 0.96])))
        else:
            stop = math.nextafter(float(T.dec(stop) + T.dec(dt)), -math.inf)
    els = T.ELEMENTS[template]
    r = rng.random()
    if r < 0.4:
        eqs = list(els)
    elif r < 0.6:
        eqs = rng.sample(T.STOCKS[template], 1)          # a stock without its flows: lazy evaluation matters
    elif r < 0.75 and template == "T3":
        eqs = ["half"]                                   # a converter on a stock, neither the stock nor its flow is watched
    else:
        eqs = rng.sample(els, rng.randint(1, len(els)))
    consts = {}
    if rng.random() < 0.5:
        # scenario-level constants (two or more where the template has them): they are applied when a session sets up its simulation
        for c in rng.sample(T.CONSTANTS[template], min(len(T.CONSTANTS[template]), rng.choice([1, 2, 3]))):
            consts[c] = rng.choice([0.5, 1.5, 2.0, 3.0, 5.0])
    case = {"property": PROPERTY,
            "config": {"template": template, "start": start, "stop": stop, "dt": dt, "constants": consts},
            "equations": eqs, "partition": gen_partition(rng, nsteps), "step_settings": {}, "second": None, "off_grid_stop": off_grid}
    singles = [n_ for n_, p_ in enumerate(case["partition"]) if p_["kind"] == "run_step"]
    if singles and rng.random() < 0.2:
        case["fault_at"] = rng.choice(singles)      # (REST channel) this run-step request fails inside the step once and is asked again
    if rng.random() < 0.45:
        case["step_settings"] = gen_step_settings(rng, template, nsteps)
    if template == "T5" and dt < 1.0 and nsteps >= 7 and rng.random() < 0.4:
        # two steps close to each other (closer than the look-back) set DIFFERENT constants, the looked-back one last, and only
        # the stock is watched: what the delay looks back at between the two steps was never asked for before
        k1 = rng.randrange(2, nsteps - 4)
        case["step_settings"] = {str(k1): {"constants": {"gain": rng.choice([0.5, 2.0, 3.0])}},
                                 str(k1 + rng.choice([1, 2])): {"constants": {"pace": rng.choice([0.0, 3.0, 7.0])}}}
        case["equations"] = ["pile"]
    if rng.random() < 0.3:
        d2 = rng.choice([x for x in [1.0, 0.5, 0.25] if x != dt] or [0.5])
        case["second"] = {"start": start, "dt": d2, "stop": start + d2 * rng.choice([3, 6, 9])}
    if rng.random() < 0.35:
        # a sibling scenario of the same manager takes part in the same session; step settings address only the first one
        case["twin"] = {"constants": {c: rng.choice([0.25, 1.0, 4.0]) for c in rng.sample(T.CONSTANTS[template], 1)}}
    if rng.random() < 0.3:
        # an earlier, plain session on the same object that is stepped to the end, asked for its results and never ended:
        # nothing of it may show in the session under test
        case["prior_session"] = {"flat": rng.random() < 0.5}
    if rng.random() < 0.12 and not case.get("twin") and nsteps >= 5:
        # (python channel) the session is begun LATER than the scenario starts (begin_session(starttime=T0)): it reports the grid
        # from T0 on, with the values the scenario has there; settings passed with its first step change nothing before T0
        k0 = rng.randrange(1, nsteps - 2)
        case["late_start"] = k0
        ss = {k_: v_ for k_, v_ in case["step_settings"].items() if int(k_) > k0}
        if rng.random() < 0.7:
            one = gen_step_settings(rng, template, nsteps)
            if one:
                ss[str(k0)] = one[sorted(one)[0]]
        case["step_settings"] = ss
    if rng.random() < 0.25 and not case.get("twin") and template != "T5" and not case.get("late_start"):
        # the session itself re-parameterises the scenario's run specs (begin_session settings)
        # (not for T5: the DSL's delay() writes the model's start time into the generated function when the equation is
        #  defined, so a look-back model is only meaningful on the start time it was built with)
        d3 = rng.choice([x for x in [1.0, 0.5, 0.25, 0.2] if x != dt])
        s3 = rng.choice([start, start, 0.0, 1.0])
        n3 = rng.choice([4, 6, 9])
        case["begin_runspecs"] = {"starttime": s3, "dt": d3, "stoptime": float(T.grid(s3, s3 + d3 * (n3 - 1) + d3 / 2, d3)[-1])}
        case["partition"] = gen_partition(rng, n3)
        case["step_settings"] = gen_step_settings(rng, template, n3) if case["step_settings"] else {}
    return case


# ------------------------------------------------------------------ helpers

def dec_grid(cfg):
    return [T.label(t) for t in T.grid(cfg["start"], cfg["stop"], cfg["dt"])]


def scenario_dicts(case):
    d = {SCN: ({"constants": dict(case["config"].get("constants") or {})} if case["config"].get("constants") else {})}
    if case.get("twin"):
        d["twin"] = {"constants": dict(case["twin"]["constants"])}
    return d


def session_cfg(case):
    """the run spec the session (and every batch run after it) is on"""
    cfg = dict(case["config"])
    rs = case.get("begin_runspecs")
    if rs:
        cfg["start"], cfg["stop"], cfg["dt"] = rs["starttime"], rs["stoptime"], rs["dt"]
    return cfg


def begin_settings(case):
    rs = case.get("begin_runspecs")
    return {MGR: {SCN: {"runspecs": dict(rs)}}} if rs else {}


def num(x):
    return float(x)


def series_from_step(body, scn=SCN):
    """step result {'smA': {'base': {eq: {t: v}}}} -> {eq: {float t: v}}"""
    out = {}
    try:
        for eq, tv in body[MGR][scn].items():
            out[eq] = {float(t): v for t, v in tv.items()}
    except Exception:
        return None
    return out


def merge(acc, part):
    for eq, tv in part.items():
        for t, v in tv.items():
            acc.setdefault(eq, {}).setdefault("_list", []).append((t, v))


def finish(acc):
    return {eq: d["_list"] for eq, d in acc.items()}


def settings_for(case, k):
    s = case["step_settings"].get(str(k))
    return {MGR: {SCN: copy.deepcopy(s)}} if s else {}


def reference(case, which=SCN):
    """closed-form trajectory with piecewise-constant parameters (clause iii); which="twin": the sibling scenario,
    which never receives step settings"""
    cfg = session_cfg(case)
    tpl = cfg["template"]
    grid = dec_grid(cfg)
    c0, p0, i0 = T.merged(tpl, constants=case["config"].get("constants") if which == SCN else case["twin"]["constants"])
    cur_c, cur_p = dict(c0), {k: [list(x) for x in v] for k, v in p0.items()}
    params = []
    for k in range(len(grid)):
        s = case["step_settings"].get(str(k)) if which == SCN else None
        if s:
            cur_c = dict(cur_c)
            cur_c.update(s.get("constants", {}))
            cur_p = dict(cur_p)
            for n, v in s.get("points", {}).items():
                cur_p[n] = [list(x) for x in v]
        params.append((cur_c, cur_p))
    return T.reference(tpl, cfg["start"], cfg["dt"], len(grid), lambda k: params[k])


def check_series(res, channel, series, grid, want, eqs, tol=1e-9, clause_values="C09.ii-value-differs"):
    """series: {eq: [(t, v)] in the order reported}; want: {eq: {t: value}} or None"""
    for eq in eqs:
        if eq not in series:
            res.violate("C09.i-equation-missing", {"channel": channel, "equation": eq, "reported": sorted(series)})
            return False
        ts = [t for t, _ in series[eq]]
        if ts != grid:
            dup = sorted({t for t in ts if ts.count(t) > 1})
            res.violate("C09.i-grid-differs", {"channel": channel, "equation": eq, "got": ts[:6] + (["..."] + ts[-2:] if len(ts) > 8 else ts[6:]),
                                               "expected": grid[:6] + (["..."] + grid[-2:] if len(grid) > 8 else grid[6:]),
                                               "got_len": len(ts), "expected_len": len(grid), "duplicates": dup[:4]})
            return False
        if want is not None:
            for t, v in series[eq]:
                w = want[eq][t]
                if v is None or not T.close(num(v), num(w), tol):
                    res.violate(clause_values, {"channel": channel, "equation": eq, "t": t, "got": v, "expected": float(w)})
                    return False
    return True


# ------------------------------------------------------------------ channels

def batch_channels(case, res, log):
    cfg = case["config"]
    eqs = case["equations"]
    grid = dec_grid(cfg)
    wcfg = {"bases": [{"template": cfg["template"], "start": cfg["start"], "stop": cfg["stop"], "dt": cfg["dt"]}],
            "managers": [{"name": MGR, "base": 0, "scenarios": scenario_dicts(case)}]}
    if case.get("second"):
        s2 = case["second"]
        wcfg["managers"][0]["scenarios"]["other"] = {"runspecs": {"starttime": s2["start"], "stoptime": s2["stop"], "dt": s2["dt"]}}
        # ... and a second MANAGER (its own model object) on that other grid, for the frame over two managers
        wcfg["bases"].append({"template": cfg["template"], "start": s2["start"], "stop": s2["stop"], "dt": s2["dt"]})
        wcfg["managers"].append({"name": "smOther", "base": 1, "scenarios": {"elsewhere": {}}})
    w = ScenarioWorld(wcfg, log, res)
    b = w.setup()
    df = b.run_scenarios(scenarios=[SCN], scenario_managers=[MGR], equations=list(eqs), series_names={}, return_format="df")
    base = {eq: [(float(t), v) for t, v in df[eq].to_dict().items()] for eq in df.columns} if df is not None else {}
    ok = check_series(res, "run_scenarios/df", base, grid, None, eqs)
    want = {eq: dict(base[eq]) for eq in base}
    if not ok:
        return None
    # the batch frame itself equals the closed form (anchors the relational oracle)
    ref = reference({**case, "step_settings": {}, "begin_runspecs": None})
    refw = {eq: {t: ref[k][eq] for k, t in enumerate(grid)} for eq in eqs}
    if not check_series(res, "run_scenarios/df vs closed form", base, grid, refw, eqs, clause_values="C09.ii-batch-differs-from-closed-form"):
        return None
    for fmt in ("dict", "json"):
        out = b.run_scenarios(scenarios=[SCN], scenario_managers=[MGR], equations=list(eqs), series_names={}, return_format=fmt)
        if fmt == "json":
            out = json.loads(out)
        try:
            node = out[MGR][SCN]["equations"]
            ser = {eq: [(float(t), v) for t, v in (node[eq] if isinstance(node[eq], dict) else node[eq].to_dict()).items()] for eq in node}
        except Exception as e:
            res.violate("C09.i-equation-missing", {"channel": "run_scenarios/" + fmt, "exception": type(e).__name__})
            return want
        if not check_series(res, "run_scenarios/" + fmt, ser, grid, want, eqs):
            return want
    if case.get("second"):
        res.probe("two_scenarios_different_runspecs")
        s2 = case["second"]
        g2 = [T.label(t) for t in T.grid(s2["start"], s2["stop"], s2["dt"])]
        for order in ([SCN, "other"], ["other", SCN]):
            df2 = b.run_scenarios(scenarios=list(order), scenario_managers=[MGR], equations=list(eqs), series_names={}, return_format="df")
            for sc, g in ((SCN, grid), ("other", g2)):
                ser = {}
                for eq in eqs:
                    col = "%s_%s_%s" % (MGR, sc, eq)
                    if df2 is None or col not in df2.columns:
                        res.violate("C09.i-equation-missing", {"channel": "run_scenarios/df two scenarios", "column": col})
                        return want
                    ser[eq] = [(float(t), v) for t, v in df2[col].dropna().to_dict().items()]
                if not check_series(res, "run_scenarios/df two scenarios (%s)" % sc, ser, g, want if sc == SCN else None, eqs):
                    return want
        # one frame over two managers whose scenarios live on different grids
        for mgrs in ([MGR, "smOther"], ["smOther", MGR]):
            df3 = b.run_scenarios(scenarios=[SCN, "elsewhere"], scenario_managers=list(mgrs), equations=list(eqs), series_names={}, return_format="df")
            res.probe("two_managers_different_runspecs")
            for mg, sc, g in ((MGR, SCN, grid), ("smOther", "elsewhere", g2)):
                ser = {}
                for eq in eqs:
                    col = "%s_%s_%s" % (mg, sc, eq)
                    if df3 is None or col not in df3.columns:
                        res.violate("C09.i-equation-missing", {"channel": "run_scenarios/df two managers", "column": col,
                                                               "columns": list(df3.columns)[:6] if df3 is not None else None})
                        return want
                    ser[eq] = [(float(t), v) for t, v in df3[col].dropna().to_dict().items()]
                if not check_series(res, "run_scenarios/df two managers (%s/%s, managers listed as %s)" % (mg, sc, "+".join(mgrs)), ser, g,
                                    want if sc == SCN else None, eqs):
                    return want
    try:
        b.destroy()
    except Exception:
        pass
    return want


def session_channel(case, res, log, want, ref):
    cfg = case["config"]
    eqs = case["equations"]
    grid = dec_grid(session_cfg(case))
    wcfg = {"bases": [{"template": cfg["template"], "start": cfg["start"], "stop": cfg["stop"], "dt": cfg["dt"]}],
            "managers": [{"name": MGR, "base": 0, "scenarios": scenario_dicts(case)}]}
    if case.get("second"):
        # a scenario of the same manager that is NOT part of the session and lives on another grid: none of the session's business
        s2 = case["second"]
        wcfg["managers"][0]["scenarios"]["other"] = {"runspecs": {"starttime": s2["start"], "stoptime": s2["stop"], "dt": s2["dt"]}}
        res.probe("bystander_scenario_on_another_grid")
    w = ScenarioWorld(wcfg, log, res)
    b = w.setup()
    scns = [SCN, "twin"] if case.get("twin") else [SCN]
    if case.get("twin"):
        res.probe("two_scenarios_in_one_session")
    if case.get("prior_session"):
        res.probe("earlier_session_not_ended")
        b.begin_session(scenarios=list(scns), scenario_managers=[MGR], equations=list(eqs), starttime=cfg["start"])
        for _ in range(len(dec_grid(cfg)) + 2):
            o_ = b.run_step()
            if o_ is None or "msg" in o_:
                break
        b.session_results(index_by_time=False, flat=case["prior_session"]["flat"])
    if case.get("begin_runspecs"):
        res.probe("runspecs_in_session_settings")
        b.begin_session(scenarios=list(scns), scenario_managers=[MGR], equations=list(eqs), settings=begin_settings(case))
    elif case.get("late_start"):
        res.probe("session_begun_after_the_scenario_start")
        b.begin_session(scenarios=list(scns), scenario_managers=[MGR], equations=list(eqs), starttime=grid[case["late_start"]])
    else:
        b.begin_session(scenarios=list(scns), scenario_managers=[MGR], equations=list(eqs), starttime=cfg["start"])
    acc = {}
    acc_twin = {}
    k = case.get("late_start") or 0
    grid = grid[k:]         # (a session begun later covers the grid from there on)
    guard = 0
    while guard < len(grid) + 5:
        guard += 1
        out = b.run_step(settings=settings_for(case, k) or None)
        if out is None or "msg" in out:
            break
        part = series_from_step(out)
        if part is None:
            res.violate("C09.i-equation-missing", {"channel": "session/run_step", "step": k, "result": str(out)[:160]})
            return
        merge(acc, part)
        if case.get("twin"):
            pt = series_from_step(out, "twin")
            if pt is None:
                res.violate("C09.i-equation-missing", {"channel": "session/run_step (sibling scenario)", "step": k, "result": str(out)[:160]})
                return
            merge(acc_twin, pt)
        k += 1
        res.sim_units += 1
    ser = finish(acc)
    if case.get("twin"):
        rt = reference(case, "twin")
        wt = {eq: {t: rt[kk][eq] for kk, t in enumerate(grid)} for eq in eqs}
        if not check_series(res, "session/run_step (sibling scenario that got no step settings)", finish(acc_twin), grid, wt, eqs,
                            clause_values="C09.iii-step-setting-effect"):
            return
    if not check_series(res, "session/run_step", ser, grid, ref if case["step_settings"] else want, eqs,
                        clause_values="C09.iii-step-setting-effect" if case["step_settings"] else "C09.ii-value-differs"):
        return
    # session_results in its indexings must carry the same entries
    by_time = b.session_results(index_by_time=True)
    ser2 = {}
    for t, d in by_time.items():
        p = series_from_step(d) or {}
        for eq, tv in p.items():
            for tt, v in tv.items():
                ser2.setdefault(eq, []).append((tt, v))
    check_series(res, "session_results(index_by_time)", ser2, grid, {eq: dict(ser[eq]) for eq in eqs}, eqs)
    by_eq = b.session_results(index_by_time=False)
    try:
        node = by_eq[MGR][SCN]["equations"]
        ser3 = {eq: [(float(t), v) for t, v in node[eq].items()] for eq in node}
        check_series(res, "session_results(by equation)", ser3, grid, {eq: dict(ser[eq]) for eq in eqs}, eqs)
        flat = b.session_results(index_by_time=False, flat=True)[MGR][SCN]["equations"]
        for eq in eqs:
            if [num(v) for v in flat[eq]] != [num(v) for _, v in ser[eq]]:
                res.violate("C09.ii-value-differs", {"channel": "session_results(flat)", "equation": eq, "got": flat[eq][:6], "expected": [v for _, v in ser[eq]][:6]})
                break
    except Exception as e:
        res.violate("C09.i-equation-missing", {"channel": "session_results", "exception": type(e).__name__, "message": str(e)[:100]})
    if case.get("begin_runspecs") and not res.violations:
        b.end_session()
        df = b.run_scenarios(scenarios=[SCN], scenario_managers=[MGR], equations=list(eqs), series_names={}, return_format="df")
        base = {eq: [(float(t), v) for t, v in df[eq].to_dict().items()] for eq in df.columns} if df is not None else {}
        check_series(res, "run_scenarios/df after session settings", base, grid, None if case["step_settings"] else {eq: dict(ser[eq]) for eq in eqs}, eqs)
    try:
        b.destroy()
    except Exception:
        pass


def rest_channel(case, res, log, want, ref):
    cfg = case["config"]
    eqs = case["equations"]
    grid = dec_grid(cfg)
    model = {"template": cfg["template"], "start": cfg["start"], "stop": cfg["stop"], "dt": cfg["dt"], "managers": {MGR: scenario_dicts(case)}}
    if case.get("second"):
        s2 = case["second"]
        model["managers"][MGR]["other"] = {"runspecs": {"starttime": s2["start"], "stoptime": s2["stop"], "dt": s2["dt"]}}
    with ServerWorld({"model": model, "adapter": None, "threads": "serial"}, log, res) as w:
        w.boot()
        r = w.post("/run", {"scenario_managers": [MGR], "scenarios": [SCN], "equations": list(eqs)})
        try:
            node = r.body[MGR][SCN]["equations"]
            ser = {eq: [(float(t), v) for t, v in node[eq].items()] for eq in node}
        except Exception:
            res.violate("C09.i-equation-missing", {"channel": "REST /run", "status": r.status, "body": str(r.text)[:160]})
            return
        if not check_series(res, "REST /run", ser, grid, None if case.get("begin_runspecs") else want, eqs):
            return
        if case.get("begin_runspecs"):
            # a second /run that only re-parameterises the run specs must report the new grid with the values of the new grid
            r = w.post("/run", {"scenario_managers": [MGR], "scenarios": [SCN], "equations": list(eqs), "settings": begin_settings(case)})
            g2 = dec_grid(session_cfg(case))
            r0 = reference({**case, "step_settings": {}})
            w0 = {eq: {t: r0[k][eq] for k, t in enumerate(g2)} for eq in eqs}
            try:
                node = r.body[MGR][SCN]["equations"]
                ser2 = {eq: [(float(t), v) for t, v in node[eq].items()] for eq in node}
            except Exception:
                res.violate("C09.i-equation-missing", {"channel": "REST /run with run-spec settings", "status": r.status, "body": str(r.text)[:160]})
                return
            if not check_series(res, "REST /run with run-spec settings after an earlier /run", ser2, g2, w0, eqs):
                return
        r = w.post("/start-instance", {"timeout": {"hours": 1}})
        iid = r.body["instance_uuid"]
        body = {"scenario_managers": [MGR], "scenarios": [SCN], "equations": list(eqs)}
        if case.get("prior_session"):
            w.post("/%s/begin-session" % iid, dict(body))
            w.stream("/%s/stream-steps" % iid, {"settings": {}})
            w.get("/%s/%ssession-results" % (iid, "flat-" if case["prior_session"]["flat"] else ""))
        if case.get("begin_runspecs"):
            body["settings"] = begin_settings(case)
            grid = dec_grid(session_cfg(case))
        r = w.post("/%s/begin-session" % iid, body)
        acc = {}
        k = 0
        for pno, part in enumerate(case["partition"]):
            flat = bool(part.get("flat"))
            k_first = k
            extra = {"flatResults": True} if flat else {}
            if flat:
                res.probe("flat_results_requested")
            if part["kind"] == "run_step":
                st = settings_for(case, k)
                if case.get("fault_at") == pno:
                    # a step request that fails in the middle of the step (the runner raises): the client gets an error and
                    # asks again - a request that returned nothing has not used up a time of the grid
                    tag = "fault%d" % pno
                    w.raise_at[tag] = 0
                    w.raise_where[tag] = "inside"
                    rf = w.post("/%s/run-step" % iid, {"settings": st, **extra}, tag=tag)
                    res.probe("failed_step_request_retried")
                else:
                    rf = None
                if rf is not None and rf.status == 200 and isinstance(rf.body, dict) and "msg" not in rf.body:
                    r = rf      # (a server that coped with the failure and answered the step: then that IS the step)
                else:
                    r = w.post("/%s/run-step" % iid, {"settings": st, **extra})
                bodies = [r.body]
                k += 1
            elif part["kind"] == "run_steps":
                # the same settings are passed to each of the n steps: only allowed to carry the setting of its first step
                st = settings_for(case, k)
                r = w.post("/%s/run-steps" % iid, {"settings": st, "numberSteps": part["n"], **extra})
                bodies = r.body if isinstance(r.body, list) else [r.body]
                k += part["n"]
            else:
                res.probe("stream_in_partition")
                st = settings_for(case, k)
                r, _, parts = w.stream("/%s/stream-steps" % iid, {"settings": st, **extra})
                bodies = r.body if isinstance(r.body, list) else [None]
                k = len(grid)
            if flat and r.status == 200:
                # flat results carry no time: the j-th body of the request belongs to grid index k_first + j
                conv = []
                for j, bdy in enumerate(bodies):
                    if isinstance(bdy, dict) and "msg" in bdy:
                        conv.append(bdy)
                        continue
                    try:
                        t = grid[k_first + j]
                        conv.append({MGR: {SCN: {eq: {t: v} for eq, v in bdy[MGR][SCN].items()}}})
                    except Exception:
                        conv.append(None)
                bodies = conv
            if r.status != 200:
                res.violate("C09.i-request-failed", {"channel": "REST " + part["kind"], "status": r.status, "body": str(r.text)[:160]})
                return
            for bdy in bodies:
                if isinstance(bdy, dict) and "msg" in bdy:
                    continue
                p = series_from_step(bdy)
                if p is None:
                    res.violate("C09.i-equation-missing", {"channel": "REST " + part["kind"], "result": str(bdy)[:160]})
                    return
                merge(acc, p)
                res.sim_units += 1
        ser = finish(acc)
        if not check_series(res, "REST stepping (%s)" % "+".join(p["kind"] for p in case["partition"])[:60], ser, grid,
                            ref if case["step_settings"] else want, eqs,
                            clause_values="C09.iii-step-setting-effect" if case["step_settings"] else "C09.ii-value-differs"):
            return
        r = w.get("/%s/session-results" % iid)
        try:
            node = r.body[MGR][SCN]["equations"]
            ser3 = {eq: [(float(t), v) for t, v in node[eq].items()] for eq in node}
            check_series(res, "REST session-results", ser3, grid, {eq: dict(ser[eq]) for eq in eqs}, eqs)
            r = w.get("/%s/flat-session-results" % iid)
            flat = r.body[MGR][SCN]["equations"]
            for eq in eqs:
                if [num(v) for v in flat[eq]] != [num(v) for _, v in ser[eq]]:
                    res.violate("C09.ii-value-differs", {"channel": "REST flat-session-results", "equation": eq, "got": flat[eq][:6],
                                                         "expected": [v for _, v in ser[eq]][:6]})
                    break
        except Exception as e:
            res.violate("C09.i-equation-missing", {"channel": "REST session-results", "exception": type(e).__name__, "body": str(r.text)[:120]})


def _run_steps_compatible(case):
    """run-steps(n) passes ONE settings dict to all of its n steps; the partition must not need a
    different setting inside such a request"""
    k = 0
    for part in case["partition"]:
        n = part.get("n", 1) if part["kind"] != "stream" else 10**6
        for j in range(1, n):
            if str(k + j) in case["step_settings"]:
                return False
        k += n if part["kind"] != "stream" else 0
        if part["kind"] == "stream":
            break
    return True


def execute(case):
    log = EventLog()
    res = RunResult()
    cfg = case["config"]
    log.add("case", case)
    if cfg["dt"] in (0.1, 0.2, 0.05):
        res.probe("decimal_dt")
    if case.get("off_grid_stop"):
        res.probe("stop_time_off_the_grid")
    if cfg["start"] == 2.5:
        res.probe("fractional_start")
    if len({p["kind"] for p in case["partition"]}) > 1:
        res.probe("mixed_partition")
    if case["step_settings"]:
        res.probe("per_step_settings")
        if any("points" in s for s in case["step_settings"].values()):
            res.probe("points_step_setting")
    if not set(T.ELEMENTS[cfg["template"]]) <= set(case["equations"]):
        res.probe("equation_subset_without_dependencies")
    if len(cfg.get("constants") or {}) >= 2:
        res.probe("scenario_level_constants")
    with patches.installed(threads="serial"):
        want = batch_channels(case, res, log)
        if want is not None and not res.violations:
            ref = None
            if case["step_settings"] or case.get("begin_runspecs"):
                r = reference(case)
                grid = dec_grid(session_cfg(case))
                ref = {eq: {t: r[k][eq] for k, t in enumerate(grid)} for eq in case["equations"]}
            if case.get("begin_runspecs"):
                want = ref      # the session is on another run spec than the first batch run
            session_channel(case, res, log, want, ref)
            if not res.violations:
                c2 = case
                if case["step_settings"] and not _run_steps_compatible(case):
                    # turn multi-step requests that would need a change of settings inside into single steps
                    c2 = copy.deepcopy(case)
                    newp = []
                    for p in c2["partition"]:
                        if p["kind"] == "run_steps":
                            newp += [{"kind": "run_step"}] * p["n"]
                        elif p["kind"] == "stream":
                            newp.append({"kind": "run_steps", "n": 10**3})
                        else:
                            newp.append(p)
                    # expand fully into single steps up to the grid length
                    n = len(dec_grid(session_cfg(case)))
                    c2["partition"] = [{"kind": "run_step"}] * n
                rest_channel(c2, res, log, want, ref)
    log.add("violations", [v.clause for v in res.violations])
    res.nontrivial = cfg["dt"] != 1.0 or len({p["kind"] for p in case["partition"]}) > 1 or bool(case["step_settings"])
    res.digest = log.digest()
    return res


def shrink(case):
    if case.get("second"):
        c = copy.deepcopy(case)
        c["second"] = None
        yield c
    if case["step_settings"]:
        for k in list(case["step_settings"]):
            c = copy.deepcopy(case)
            c["step_settings"].pop(k)
            yield c
    if len(case["partition"]) > 1 or case["partition"][0]["kind"] != "run_step":
        c = copy.deepcopy(case)
        n = len(dec_grid(case["config"]))
        c["partition"] = [{"kind": "run_step"}] * n
        yield c
    cfg = case["config"]
    n = len(dec_grid(cfg))
    if n > 3:
        c = copy.deepcopy(case)
        m = max(3, n // 2)
        c["config"]["stop"] = float(T.grid(cfg["start"], cfg["start"] + cfg["dt"] * (m - 1) + cfg["dt"] / 2, cfg["dt"])[-1])
        c["partition"] = [{"kind": "run_step"}] * m
        c["step_settings"] = {k: v for k, v in c["step_settings"].items() if int(k) < m}
        yield c
    if len(case["equations"]) > 1:
        for j in range(len(case["equations"])):
            c = copy.deepcopy(case)
            c["equations"].pop(j)
            yield c
    if cfg["start"] != 0.0:
        c = copy.deepcopy(case)
        nn = len(dec_grid(cfg))
        c["config"]["start"] = 0.0
        c["config"]["stop"] = float(T.grid(0.0, cfg["dt"] * (nn - 1) + cfg["dt"] / 2, cfg["dt"])[-1])
        yield c


def trigger(case, v, f):
    t = f["trigger"]["kind"]
    if t == "step_settings_and_equations_without_dependencies":
        return bool(case["step_settings"]) and not set(T.ELEMENTS[case["config"]["template"]]) <= set(case["equations"])
    return False


def neutralise(case, v, f):
    t = f["trigger"]["kind"]
    if t == "step_settings_and_equations_without_dependencies":
        c = copy.deepcopy(case)
        c["equations"] = list(T.ELEMENTS[case["config"]["template"]])
        return c
    return None
