"""C20  After a server crash, externalised sessions continue as if nothing happened
(the FAULT-INJECTING configuration of the durability simulation).

For every generated session history (N requests over 1-3 instances) the server process is
lost after request k, for EVERY k in 0..N; for every k whose request writes a state file also
inside that write (crash before open, torn at each length class, lost write), and independently
with a stray file in the state directory.  A new server is constructed on the surviving simfs
content and the remaining requests are issued.  Oracle: an uninterrupted twin run.
"""
import copy
import random

from sim.core import EventLog, RunResult, derive_seed
from sim.fs import TORN_CLASSES
from worlds.server_world import ServerWorld
from checks.common import shrink_list, times_of_step_result

PROPERTY = "C20"
LEVEL = "fault_enumeration"
SIM_UNIT = "session steps"
CHUNK = 24
RULE = ("an evaluation = one crash-restart execution: a seeded session history (create, begin-session with/without "
        "settings, run-step with settings / {} / no body, run-steps, stream-steps, session-results, keep-alive over 1-3 "
        "instances, adapter plain or compressed) x one crash point k (all k in 0..N are enumerated per history) x one "
        "write-fault variant (none / crash_before_open / torn at zero, one, header, inner, last / lost_write) x "
        "optional stray file; the restarted server receives the remaining requests and is compared with an "
        "uninterrupted twin; non-trivial = at least one externalised instance served at least one request after the "
        "restart and was compared with the twin, or a write fault / stray file fired; distinct = distinct event-log digest")
REAL = ["BPTK_Py.server.bptkServer (start-up load, _ensure_instance_exists, reconstruct_instance, step endpoints)",
        "BPTK_Py.bptk (_set_state, run_step)", "BPTK_Py.externalstateadapter (FileAdapter logic)", "BPTK_Py.util.statecompression",
        "BPTK_Py.scenariorunners.sd_runner", "BPTK_Py.sdsimulation", "jsonpickle", "Flask", "werkzeug test client"]
STUB = ["file system under FileAdapter (simfs with crash semantics)", "process crash/restart (server objects dropped; only simfs durable content survives; module-level state survives, see DESIGN.md section 7)",
        "wall clock", "uuid source", "SdSimulation worker threads run serially"]
ASSUMPTIONS = ["a stepping request is acknowledged only after its save; a write fault models a crash during request k, whose response the client never saw",
               "a begin-session is followed immediately (in its instance's stream) by a stepping request; while a begun session has not been stepped yet it is not externalised and the instance is exempt at that crash point",
               "crash modelled in-process; the thorough tier replays a sample with each incarnation in a child process on a real directory"]
FAULT_KINDS = ["preemption", "crash_between_requests", "second_crash", "crash_before_open", "torn:zero", "torn:one", "torn:header", "torn:inner", "torn:last",
               "lost_write", "stray_file"]
PROBES = ["restart_after_long_outage", "whole_server_load_state", "two_concurrent_steps_of_one_instance", "more_than_ten_steps_with_changing_settings", "saves_of_two_instances_interleaved", "stream_abandoned_by_client", "integer_run_specs", "whole_server_save_state", "second_session_in_instance", "restored_with_settings_history", "restored_instance_stepped", "torn_inside_inner_string", "damaged_file_contained",
          "startup_with_stray_file", "several_instances_restored", "never_externalised_instance_exempt", "long_history_restored"]
THOROUGH_PROBES = ["child_process_cross_check"]
EXHAUSTIVE = {"quick": False, "thorough": False}

PAIR_TRACE = ("server/bptkServer.py", "BPTK_Py/bptk.py", "externalstateadapter/externalStateAdapter.py")
STRAYS = ["README", "x.json.tmp", ".DS_Store", "notes.json"]
SAVING = ("step", "steps", "stream", "stream_cut")


def gen_history(seed, long=False):
    rng = random.Random(seed)
    template = rng.choice(["T1", "T1", "T2"])
    adapter = rng.choice(["plain", "plain", "compressed"])
    eqs = {"T1": ["stock", "flow", "constant"], "T2": ["stockA", "stockB", "move", "gain"]}[template]
    k = rng.choice([1, 1, 2, 3])
    with_settings = rng.random() < 0.6
    many = rng.random() < 0.2       # sessions of more than ten steps whose settings change on the way ("10.0" sorts before "2.0")
    # (with the compressing adapter anything else than uniform settings runs into the listed finding: half of those histories are uniform)
    uniform_case = with_settings and rng.random() < (0.7 if adapter == "compressed" else 0.2)
    if uniform_case and adapter == "compressed" and rng.random() < 0.6:
        template = "T2"         # two constants per step
        eqs = ["stockA", "stockB", "move", "gain"]
    streams = []
    uniform_insts = set()
    for j in range(k):
        scen = rng.choice(["base", "alt"])

        uniform = uniform_case      # every stepping request of every instance carries the same settings KEYS (values differ)

        def sett():
            if uniform:
                if template == "T1":
                    return {"smA": {scen: {"constants": {"constant": rng.choice([0.5, 2.0, 3.0, 7.0])}}}}
                return {"smA": {scen: {"constants": {"k": rng.choice([0.5, 1.0, 2.0]), "drain": rng.choice([0.0, 0.25, 1.0])}}}}
            if not with_settings or rng.random() < 0.4:
                return rng.choice([{}, {}, None])
            if template == "T1":
                return {"smA": {scen: {"constants": {"constant": rng.choice([0.5, 2.0, 3.0, 7.0])}}}}
            if rng.random() < 0.6:
                return {"smA": {scen: {"constants": {"k": rng.choice([0.5, 1.0, 2.0]), "drain": rng.choice([0.0, 0.25])}}}}
            return {"smA": {scen: {"points": {"tbl": [[0.0, rng.choice([1.0, 2.0])], [6.0, 4.0], [12.0, 0.0]]}}}}
        s = [{"inst": j, "op": "create"},
             {"inst": j, "op": "begin", "scenarios": [scen], "equations": rng.sample(eqs, rng.randint(2, len(eqs))),
              "settings": (sett() or sett() or {}) if (with_settings and rng.random() < 0.6) else {}}]
        n = rng.randint(2, 5) if not long else 3
        for _ in range(n):
            r = rng.random()
            if r < 0.55:
                s.append({"inst": j, "op": "step", "settings": sett()})
            elif r < 0.75:
                s.append({"inst": j, "op": "steps", "n": (rng.choice([1, 2, 3]) if not many else rng.choice([4, 5, 7])) if not long else rng.choice([150, 250, 400]),
                          "settings": sett() or {}})
            elif r < 0.87:
                s.append({"inst": j, "op": rng.choice(["results", "flat"])})
            else:
                s.append({"inst": j, "op": "keep_alive"})
        if rng.random() < 0.3 and not long and not uniform:
            # a second session in the same instance; its first stepping request follows immediately, so that the
            # only crash points at which the new session is not durable yet are the ones right after the begin
            taken = sum((o.get("n", 1) if o["op"] == "steps" else 1) for o in s if o["op"] in ("step", "steps"))
            scen2 = "alt" if scen == "base" else "base"
            s.append({"inst": j, "op": "begin", "scenarios": [scen2], "equations": rng.sample(eqs, rng.randint(2, len(eqs))),
                      "settings": {"smA": {scen2: {"constants": {"constant": 7.0}}}} if (template == "T1" and with_settings and rng.random() < 0.5) else {}})
            if taken and rng.random() < 0.6:
                s.append({"inst": j, "op": "steps", "n": taken, "settings": {}})
            else:
                s.append({"inst": j, "op": "step", "settings": {}})
            if rng.random() < 0.5:
                s.append({"inst": j, "op": "step", "settings": {}})
        if rng.random() < 0.15 and not long:
            s.append({"inst": j, "op": "stream", "settings": sett() if uniform else {}})
        streams.append(s)
        uniform_insts.add(j) if uniform else None
    # a client that hangs up in the middle of a stream: the steps it has been sent were taken
    for s in streams:
        if rng.random() < 0.25 and not long and s[0]["inst"] not in uniform_insts:
            pos = rng.randint(2, len(s))
            if s[pos - 1]["op"] == "begin":
                pos += 1        # a begin keeps its immediate first stepping request
            s.insert(min(pos, len(s)), {"inst": s[0]["inst"], "op": "stream_cut", "chunks": rng.choice([1, 2, 3, 4, 6]),
                                        "settings": {} if rng.random() < 0.7 else None})
    int_specs = rng.choice(["none", "none", "scenario", "begin", "begin_other", "begin_other"]) if not long else rng.choice(["none", "none", "scenario", "begin"])
    if int_specs == "begin_other":
        # the session runs on a grid of its own (run specs in the begin-session settings that differ from the scenario's):
        # a restored session continues on THAT grid
        rs_ = rng.choice([{"dt": 0.5}, {"starttime": 3.0}, {"starttime": 2.0, "dt": 0.5, "stoptime": 14.0},
                          # a short session: it reaches its stop time within the history (a crash may fall right before its last step)
                          {"stoptime": 4.0}, {"stoptime": 3.0},
                          # decimal steps: (0.3 - 0.0) / 0.1 is 2.9999999999999996 in floating point
                          {"starttime": 0.0, "dt": 0.1, "stoptime": 3.0}, {"starttime": 0.0, "dt": 0.2, "stoptime": 6.0}, {"starttime": 2.0, "dt": 0.1, "stoptime": 5.0}])
        for s in streams:
            for o in s:
                if o["op"] == "begin":
                    o["settings"] = copy.deepcopy(o["settings"]) or {}
                    o["settings"].setdefault("smA", {}).setdefault(o["scenarios"][0], {})["runspecs"] = dict(rs_)
    if int_specs == "begin":
        # run specs written the way people write them: as integers
        for s in streams:
            for o in s:
                if o["op"] == "begin":
                    o["settings"] = copy.deepcopy(o["settings"]) or {}
                    o["settings"].setdefault("smA", {}).setdefault(o["scenarios"][0], {})["runspecs"] = {"starttime": 1, "stoptime": 30, "dt": 1}
    # merge the streams preserving each one's order
    ops = []
    idx = [0] * k
    while any(idx[j] < len(streams[j]) for j in range(k)):
        j = rng.choice([j for j in range(k) if idx[j] < len(streams[j])])
        ops.append(streams[j][idx[j]])
        idx[j] += 1
    ops = ops[:16]
    if rng.random() < 0.4 and not long:
        # two stepping requests of two different instances arrive together: their saves interleave at source-line
        # granularity (both are acknowledged before anything crashes)
        # ... or two run-step requests of the SAME instance (each is served or refused as locked; what was served is durable)
        cand = [n for n in range(len(ops) - 1) if ops[n]["op"] in ("step", "steps") and ops[n + 1]["op"] in ("step", "steps")
                ]
        for n in cand[:2] if rng.random() < 0.5 else cand[-1:]:
            if not ops[n - 1].get("pair") if n else True:
                ops[n] = dict(ops[n], pair={"kind": "random", "seed": rng.randrange(2**32), "p": rng.choice([0.02, 0.05, 0.2])})
    if rng.random() < 0.35:
        # GET /save-state: every instance is externalised as it is, also a session that has not been stepped yet.
        # Placed where every instance created so far has a session (the route cannot save a session-less instance).
        ok_pos = []
        for pos in range(1, len(ops) + 1):
            created = {o["inst"] for o in ops[:pos] if o["op"] == "create"}
            begun = {o["inst"] for o in ops[:pos] if o["op"] == "begin"}
            if created and created <= begun:
                ok_pos.append(pos)
        if ok_pos:
            # often right after the sessions were begun, before anybody stepped
            ops.insert(ok_pos[0] if rng.random() < 0.5 else rng.choice(ok_pos), {"inst": -1, "op": "save_state"})
    elif rng.random() < 0.2 and len(ops) > 2:
        # ... or at any moment, also while some instance has no session (the request may then fail; whatever it leaves in the
        # state directory, the next server starts and the sessions that were externalised continue)
        ops.insert(rng.randint(1, len(ops)), {"inst": -1, "op": "save_state"})
    ints = {"runspecs": {"starttime": 1, "stoptime": 30, "dt": 1}} if (int_specs == "scenario" and not long) else {}
    if rng.random() < 0.5 and not long:
        # POST /load-state at a moment when the state directory is up to date (every instance's last request was a stepping
        # one): reading everything back changes nothing - also on a server that was itself started from that directory
        ok_pos = []
        for pos in range(2, len(ops) + 1):
            lastop = {}
            for o in ops[:pos]:
                if o["inst"] >= 0:
                    lastop[o["inst"]] = o["op"]
            if lastop and all(v in ("step", "steps", "stream", "stream_cut") for v in lastop.values()) and not ops[pos - 1].get("pair"):
                ok_pos.append(pos)
        if ok_pos:
            # (preferably with stepping requests still to come, and sometimes twice)
            inner = [p_ for p_ in ok_pos if any(o["op"] in ("step", "steps") for o in ops[p_:])] or ok_pos
            pos1 = rng.choice(inner)
            ops.insert(pos1, {"inst": -1, "op": "load_state"})
            later = [p_ + 1 for p_ in inner if p_ > pos1]
            if later and rng.random() < 0.4:
                ops.insert(rng.choice(later), {"inst": -1, "op": "load_state"})
    return {"property": PROPERTY,
            "config": {"adapter": adapter, "list_order": rng.choice(["insertion", "sorted", "reversed"]),
                       "model": {"template": template, "start": 1.0, "stop": 30.0 if not long else 2000.0, "dt": 1.0,
                                 "managers": {"smA": {"base": dict(ints), "alt": dict(ints, constants={"constant": 2.0} if template == "T1" else {"drain": 1.0})}}}},
            "ops": ops}


def variants(ops, k, rng):
    out = [None]
    if 1 <= k <= len(ops) and ops[k - 1]["op"] in SAVING + ("save_state",):
        out += [{"kind": "crash_before_open"}, {"kind": "lost_write"}] + [{"kind": "torn", "cls": c} for c in TORN_CLASSES]
    return out


LONG_CASES = [
    {"adapter": "plain", "n": 400, "settings": {"smA": {"base": {"constants": {"constant": 2.0}}}}},
    {"adapter": "plain", "n": 330, "settings": {}},
]


def long_case(i):
    lc = LONG_CASES[i]
    return {"property": PROPERTY,
            "config": {"adapter": lc["adapter"], "list_order": "insertion",
                       "model": {"template": "T1", "start": 1.0, "stop": 2000.0, "dt": 1.0, "managers": {"smA": {"base": {}}}}},
            "ops": [{"inst": 0, "op": "create"},
                    {"inst": 0, "op": "begin", "scenarios": ["base"], "equations": ["stock", "flow"], "settings": {}},
                    {"inst": 0, "op": "steps", "n": lc["n"], "settings": lc["settings"]},
                    {"inst": 0, "op": "step", "settings": {}},
                    {"inst": 0, "op": "results"}],
            "crash": {"k": 3, "fault": None, "stray": None}}


def overtake_case(adapter, k=None, second="step"):
    """two stepping requests of ONE instance in flight together, the one that runs first overtaken at scheduling point k by
    the other (which runs to completion); then the server is lost and the session continued"""
    st = {"smA": {"base": {"constants": {"constant": 3.0}}}}
    return {"property": PROPERTY,
            "config": {"adapter": adapter, "list_order": "insertion",
                       "model": {"template": "T1", "start": 1.0, "stop": 30.0, "dt": 1.0, "managers": {"smA": {"base": {}}}}},
            "ops": [{"inst": 0, "op": "create"},
                    {"inst": 0, "op": "begin", "scenarios": ["base"], "equations": ["stock", "constant"], "settings": {}},
                    {"inst": 0, "op": "step", "settings": st},
                    {"inst": 0, "op": "step", "settings": st, "pair": {"kind": "default"} if k is None else {"kind": "overtake", "k": k, "to": 1}},
                    ({"inst": 0, "op": "step", "settings": st} if second == "step" else {"inst": 0, "op": "steps", "n": 2, "settings": st}),
                    {"inst": 0, "op": "step", "settings": {}},
                    {"inst": 0, "op": "results"}],
            "crash": {"k": 5, "fault": None, "stray": None, "k2": None}}


def plan(tier, verif_seed):
    for second in ("step", "steps"):
        r0 = execute(overtake_case("plain", None, second))
        for kk in range(r0.points):
            yield {"overtake": {"adapter": "plain", "k": kk, "second": second}}
    for i in range(len(LONG_CASES)):
        yield {"directed_long": i}
    nh = 90 if tier == "quick" else 10**9
    for h in range(nh):
        hseed = derive_seed(verif_seed, PROPERTY, "history", h)
        long = tier == "thorough" and h % 25 == 24
        hist = gen_history(hseed, long)
        N = len(hist["ops"])
        rng = random.Random(hseed ^ 0x5bd1e995)
        first = True
        for k in range(0, N + 1):
            for fv in variants(hist["ops"], k, rng):
                yield {"h": h, "hseed": hseed, "k": k, "fault": fv, "stray": None, "long": long,
                       "keep_sample": first and h < 2}
                first = False
            if tier == "thorough" and (h * 31 + k) % 40 == 0:
                # cross-check of the in-process crash model against real child processes
                yield {"h": h, "hseed": hseed, "k": k, "fault": None if k % 2 else ({"kind": "torn", "cls": "inner"} if 1 <= k <= N and hist["ops"][k - 1]["op"] in SAVING else None),
                       "stray": None, "long": long, "child": True}
            # one double-crash variant per crash point: the server is lost again right after the
            # restart (k2 = k) or after one more request (k2 = k+1)
            yield {"h": h, "hseed": hseed, "k": k, "k2": k + ((h + k) % 2), "fault": None, "stray": None, "long": long}
            # one variant per crash point in which the new server's own background work (if it starts any) is scheduled late:
            # after the first / second request that reaches it
            yield {"h": h, "hseed": hseed, "k": k, "fault": None, "stray": None, "long": long, "bg": 1 + (h + k) % 2}
            # one stray-file variant per crash point (file name rotates)
            # (every other one of these after a long outage: the new server starts 13 hours after the old one was lost, longer
            #  than any instance's time-out - externalised sessions are restored whatever their age)
            yield {"h": h, "hseed": hseed, "k": k, "fault": None, "stray": STRAYS[(h + k) % len(STRAYS)], "long": long,
                   "outage_us": 13 * 3600 * 10**6 if (h + k) % 2 else 0}


def generate(spec):
    if "overtake" in spec:
        return overtake_case(spec["overtake"]["adapter"], spec["overtake"]["k"], spec["overtake"]["second"])
    if "directed_long" in spec:
        return long_case(spec["directed_long"])
    case = gen_history(spec["hseed"], spec.get("long", False))
    case["crash"] = {"k": spec["k"], "fault": spec["fault"], "stray": spec["stray"], "k2": spec.get("k2")}
    if spec.get("bg") is not None:
        case["crash"]["bg"] = spec["bg"]
    if spec.get("outage_us"):
        case["crash"]["outage_us"] = spec["outage_us"]
    if spec.get("child"):
        case["child"] = True
    return case


def _do(w, ids, o, res=None):
    j = o["inst"]
    op = o["op"]
    if op == "save_state":
        return w.get("/save-state")
    if op == "load_state":
        if res is not None:
            res.probe("whole_server_load_state")
        return w.post("/load-state")
    if op == "create":
        r = w.post("/start-instance", {"timeout": {"hours": 12}})
        if r.status == 200 and isinstance(r.body, dict):
            ids[j] = r.body["instance_uuid"]
        return r
    iid = ids.get(j, "missing%d" % j)
    if op == "begin":
        return w.post("/%s/begin-session" % iid, {"scenario_managers": ["smA"], "scenarios": o["scenarios"],
                                                  "equations": o["equations"], "settings": o["settings"]})
    if op == "step":
        return w.post("/%s/run-step" % iid, None if o["settings"] is None else {"settings": o["settings"]})
    if op == "steps":
        return w.post("/%s/run-steps" % iid, {"settings": o["settings"], "numberSteps": o["n"]})
    if op == "stream":
        r, _, _ = w.stream("/%s/stream-steps" % iid, {"settings": o["settings"]})
        return r
    if op == "stream_cut":
        r, cut, parts = w.stream("/%s/stream-steps" % iid, None if o["settings"] is None else {"settings": o["settings"]}, chunks=o["chunks"])
        if cut and res is not None:
            res.probe("stream_abandoned_by_client")
        # what the client has read is half a JSON document: compare it chunk by chunk (key order inside a step is no difference)
        import json
        from worlds.server_world import Resp
        canon_parts = []
        for ch in parts:
            try:
                canon_parts.append(json.loads(ch))
            except Exception:
                canon_parts.append(ch)
        return Resp(r.status, json.dumps(canon_parts, sort_keys=True))
    if op == "results":
        return w.get("/%s/session-results" % iid)
    if op == "flat":
        return w.get("/%s/flat-session-results" % iid)
    if op == "keep_alive":
        return w.post("/%s/keep-alive" % iid)
    raise ValueError(op)


def _run(case, crash, log, res):
    """returns ({op index: (status, body)}, info)"""
    cfg = case["config"]
    ops = case["ops"]
    out = {}
    info = {"boot_error": None, "externalised": set(), "damaged": set(), "file_before": {}}
    honour = case.get("honour_pairs", True) and any(o.get("pair") for o in ops)
    with ServerWorld({"model": cfg["model"], "adapter": cfg["adapter"], "list_order": cfg.get("list_order", "insertion"),
                      "threads": "auto" if honour else "serial"}, log, res) as w:
        w.boot()
        ids = {}
        k = crash["k"] if crash else None
        k2_ = crash.get("k2") if crash else None
        skip = set()

        def pair_ok(n):
            o = ops[n - 1]
            if not (honour and o.get("pair") and n + 1 <= len(ops)):
                return False
            o2 = ops[n]
            if o["op"] not in ("step", "steps") or o2["op"] not in ("step", "steps") or o["inst"] < 0 or o2["inst"] < 0:
                return False        # (a shrunk history may have lost the partner)

            if crash and (k == n or (crash.get("fault") and k == n + 1)):
                return False        # the process cannot be lost "between" two requests that are in flight together
            if k2_ is not None and k2_ == n:
                return False
            if crash and crash.get("bg") is not None and n > k:
                return False        # the restarted incarnation already lives under the background scheduler
            if ops[n]["inst"] == o["inst"] and (not crash or n + 1 > k):
                # which of two concurrent run-steps of ONE instance gets which step is the schedule's choice: such a pair
                # is only run before the crash, where responses are not compared (what must hold is that whatever was
                # served is durable); after the restart the two requests arrive one after the other
                return False
            return True

        def run_pair(n):
            from sim.threads import Scheduler, make_policy, run_tasks
            box = {}

            def c1():
                box[n] = _do(w, ids, ops[n - 1], res)

            def c2():
                box[n + 1] = _do(w, ids, ops[n], res)
            sp = dict(ops[n - 1]["pair"])
            # every crash variant of a history explores its own interleaving; two in three place the pre-emption points
            # inside the adapter only, so that the two saves really overlap
            salt = (k or 0) * 31 + (k2_ or 0) * 7 + (len(repr(crash.get("fault"))) if crash else 0) + (1 if crash and crash.get("stray") else 0)
            sp["seed"] = (sp.get("seed", 0) * 1000003 + salt) % (2**32)
            narrow = sp["seed"] % 3 != 0 and sp.get("kind") == "random"
            if narrow:
                sp["p"] = [0.15, 0.3, 0.5][sp["seed"] % 3 - 1] if sp["seed"] % 3 else 0.3
            sched = Scheduler(make_policy(sp), PAIR_TRACE[2:] if narrow else PAIR_TRACE, log=None)
            with sched:
                rr = run_tasks(sched, [c1, c2])
            for x in rr:
                if x and x[0] == "exc":
                    raise x[1]
            res.points += sched.points
            if sched.switches > 2:
                res.fault("preemption", sched.switches)
                res.probe("saves_of_two_instances_interleaved")
            log.add("pair", n, sched.interleaving_hash())
            if ops[n - 1]["inst"] == ops[n]["inst"]:
                res.probe("two_concurrent_steps_of_one_instance")
            for m in (n, n + 1):
                r = box[m]
                out[m] = (r.status, r.body if r.body is not None else r.text)
                log.add("req", m, ops[m - 1]["op"], r.status)
            skip.add(n + 1)

        for n, o in enumerate(ops, start=1):
            if crash and n > k:
                break
            if n in skip:
                if crash and n == k:
                    break
                continue
            if pair_ok(n):
                run_pair(n)
                continue
            if crash and n == k and crash.get("fault"):
                j = o["inst"]
                path = "/state/%s.json" % ids.get(j)
                info["file_before"][j] = w.fs.files.get(path)
                w.fs.armed = dict(crash["fault"])
                r = _do(w, ids, o, res)
                w.fs.armed = None
                log.add("req", n, o["op"], "crashed-inside")
                # the client never saw this response
            else:
                r = _do(w, ids, o, res)
                out[n] = (r.status, r.body if r.body is not None else r.text)
                log.add("req", n, o["op"], r.status)
            if crash and n == k:
                break
        if crash:
            fired = dict(w.fs.fired)
            if not crash.get("fault"):
                res.fault("crash_between_requests")
            for kind, cnt in fired.items():
                res.fault(kind.split(":")[0] if not kind.startswith("torn") else kind, cnt)
                if kind == "torn:inner":
                    res.probe("torn_inside_inner_string")
            w.crash()
            if crash.get("stray"):
                content = "{not json" if crash["stray"].endswith(".json") else "hello\n"
                w.fs.put_stray(crash["stray"], content)
                res.fault("stray_file")
            # which instances are durably externalised, and is their file intact?
            for j, iid in ids.items():
                f = w.fs.files.get("/state/%s.json" % iid)
                if f is not None:
                    info["externalised"].add(j)
                    try:
                        import json
                        d = json.loads(f)
                        json.loads(d["data"]["state"])
                    except Exception:
                        info["damaged"].add(j)
            info["ids"] = dict(ids)
            # whatever the new server starts in the background (a restore thread, a timer ...) is scheduled by the driver:
            # it runs to completion before the first request (bg = 0) or only after the bg-th request has been answered
            bg = crash.get("bg")
            if crash.get("outage_us"):
                w.clock.advance(crash["outage_us"])
                res.probe("restart_after_long_outage")
            try:
                w.boot(background=bg is not None)
            except Exception as e:      # start-up must never fail
                info["boot_error"] = "%s: %s" % (type(e).__name__, e)
                return out, info
            served_after = [0]
            if bg == 0:
                w.settle()
            if crash.get("stray"):
                res.probe("startup_with_stray_file")
            k2 = crash.get("k2")

            def second_crash():
                # the process is lost a second time (between two requests), before the restored
                # instances have necessarily been saved again
                w.crash()
                res.fault("second_crash")
                info["externalised2"] = set()
                info["damaged2"] = set()
                for j_, iid_ in ids.items():
                    f_ = w.fs.files.get("/state/%s.json" % iid_)
                    if f_ is not None:
                        info["externalised2"].add(j_)
                        try:
                            import json
                            d_ = json.loads(f_)
                            json.loads(d_["data"]["state"])
                        except Exception:
                            info["damaged2"].add(j_)
                try:
                    w.boot()
                except Exception as e:
                    info["boot_error"] = "%s: %s" % (type(e).__name__, e)
                    return False
                return True
            if k2 is not None and k2 <= k:
                if not second_crash():
                    return out, info
            for n, o in enumerate(ops, start=1):
                if n <= k:
                    continue
                if n in skip:
                    if k2 is not None and n == k2:
                        if not second_crash():
                            return out, info
                    continue
                if pair_ok(n):
                    run_pair(n)
                    continue
                r = _do(w, ids, o, res)
                out[n] = (r.status, r.body if r.body is not None else r.text)
                log.add("req", n, o["op"], r.status)
                served_after[0] += 1
                if bg is not None and bg > 0 and served_after[0] == bg:
                    w.settle()
                if k2 is not None and n == k2:
                    if not second_crash():
                        return out, info
        info["ids"] = dict(ids)
    return out, info


def _step_results(body):
    if isinstance(body, list):
        return [b for b in body if isinstance(b, dict) and "msg" not in b]
    if isinstance(body, dict) and "msg" not in body and "error" not in body:
        return [body]
    return []


def child_process_run(case):
    """the same crash, but with every server incarnation in its own OS process on a real directory
    (real clock, real uuids, real files).  Returns {op index: (status, body)} or raises HarnessError."""
    import json
    import os
    import shutil
    import subprocess
    import sys
    import tempfile
    from sim.core import HarnessError
    from sim.fs import fault_cut
    here = os.path.dirname(os.path.dirname(os.path.abspath(__file__)))
    tmp = tempfile.mkdtemp(prefix="verif-c20child-%d-" % os.getpid())
    sdir = os.path.join(tmp, "state")
    os.makedirs(sdir)
    ops = case["ops"]
    crash = case["crash"]
    k = crash["k"]
    fault = crash.get("fault")
    out = {}
    try:
        def child(sel, ids):
            job = {"model": case["config"]["model"], "adapter": case["config"]["adapter"], "dir": sdir, "cwd": tmp,
                   "ops": [[n, o] for n, o in enumerate(ops, start=1) if sel(n)], "ids": ids}
            p = subprocess.run([sys.executable, os.path.join(here, "tools", "c20_child.py")], input=json.dumps(job), capture_output=True,
                               text=True, timeout=600, env=dict(os.environ, PYTHONHASHSEED="0"))
            line = [l for l in p.stdout.splitlines() if l.startswith("RESULT ")]
            if not line:
                raise HarnessError("C20 child process failed: " + (p.stdout + p.stderr)[-800:])
            return json.loads(line[0][7:])
        r1 = child(lambda n: n <= k, {})
        for n, v in r1["responses"].items():
            if not (fault and int(n) == k):
                out[int(n)] = (v[0], v[1])
        ids = r1["ids"]
        if fault and fault["kind"] == "torn" and 1 <= k <= len(ops):
            iid = ids.get(str(ops[k - 1]["inst"]))
            path = os.path.join(sdir, "%s.json" % iid)
            if os.path.exists(path):
                whole = open(path).read()
                with open(path, "w") as f:
                    f.write(whole[:fault_cut(whole, fault.get("cls", "half"), fault.get("n"))])
        if crash.get("stray"):
            with open(os.path.join(sdir, crash["stray"]), "w") as f:
                f.write("{not json" if crash["stray"].endswith(".json") else "hello\n")
        r2 = child(lambda n: n > k, ids)
        if r2["boot_error"]:
            return out, r2["boot_error"]
        for n, v in r2["responses"].items():
            out[int(n)] = (v[0], v[1])
        return out, None
    finally:
        shutil.rmtree(tmp, ignore_errors=True)


def _norm_ids(got, ids):
    import json
    out = {}
    for n, (st, body) in got.items():
        text = json.dumps(body)
        for j, iid in ids.items():
            if iid:
                text = text.replace(iid, "INST%s" % j)
        out[n] = (st, json.loads(text))
    return out


def execute(case):
    log = EventLog()
    res = RunResult()
    ops = case["ops"]
    crash = case["crash"]
    k = crash["k"]
    fault = crash.get("fault")
    if case.get("child"):
        case = dict(case, honour_pairs=False)        # the child processes take the requests one after the other
    got, info = _run(case, crash, log, res)
    if case.get("child"):
        # cross-check of the crash MODEL (not of the repository): real processes must see what the
        # in-process incarnations saw.  A difference is a harness error, never a verdict.
        from sim.core import HarnessError
        cgot, cboot = child_process_run(case)
        res.probe("child_process_cross_check")
        if bool(cboot) != bool(info["boot_error"]):
            raise HarnessError("in-process restart and child-process restart disagree on start-up: %r vs %r" % (info["boot_error"], cboot))
        if not cboot:
            mine = _norm_ids(got, info.get("ids", {}))
            for n in sorted(set(mine) | set(cgot)):
                if 1 <= n <= len(ops) and ops[n - 1]["op"] == "save_state":
                    continue        # its body carries wall-clock time stamps
                a, b = mine.get(n), cgot.get(n)
                if a is None or b is None or a[0] != b[0] or a[1] != b[1]:
                    raise HarnessError("in-process restart differs from real child processes at request %d: %r vs %r" % (n, str(a)[:300], str(b)[:300]))
    if info["boot_error"]:
        res.violate("C20.3-startup-failed", {"error": info["boot_error"][:200], "fault": fault, "stray": crash.get("stray"), "k": k})
        res.nontrivial = True
        res.digest = log.digest()
        return res
    # ---- twin: the same history, never crashed; a request that died inside its save is dropped
    twin_case = copy.deepcopy(case)
    dropped = None
    if fault is not None and 1 <= k <= len(ops):
        dropped = k
    # a request of a concurrent pair that was refused ("instance is locked") never happened as far as the session goes
    refused = set()

    def same_inst_pair(n, o):
        return (o.get("pair") and n + 1 <= len(ops) and ops[n]["inst"] == o["inst"] and o["inst"] >= 0
                and o["op"] in ("step", "steps") and ops[n]["op"] in ("step", "steps") and n + 1 <= k
                and not (fault is not None and k == n + 1) and crash.get("k2") != n)
    for n, o in enumerate(ops, start=1):
        if same_inst_pair(n, o):
            for m in (n, n + 1):
                g = got.get(m)
                if g is not None and g[0] == 500 and "locked" in str(g[1]):
                    refused.add(m)
                    res.probe("one_of_two_concurrent_steps_refused")
    # ... and when both were served, the uninterrupted reference takes them in the order in which they were served
    def _first_time(g):
        try:
            return min(float(t) for mg in g[1].values() for sc in mg.values() for series in sc.values() for t in series)
        except Exception:
            return None
    order = list(range(1, len(ops) + 1))
    for n, o in enumerate(ops, start=1):
        if same_inst_pair(n, o) and n not in refused and n + 1 not in refused:
            ta, tb = _first_time(got.get(n) or (0, {})), _first_time(got.get(n + 1) or (0, {}))
            if ta is not None and tb is not None and tb < ta:
                order[n - 1], order[n] = order[n], order[n - 1]
                res.probe("concurrent_steps_served_in_reverse_order")
    tlog = EventLog()
    tres = RunResult()
    twin_ops = [ops[n - 1] for n in order if n != dropped and n not in refused]
    twin_case["ops"] = twin_ops
    twin_case["honour_pairs"] = False        # the uninterrupted reference takes the requests one after the other
    twin_out, _ = _run(twin_case, None, tlog, tres)
    # map twin indexes back to original indexes
    tmap = {}
    tn = 0
    for n in range(1, len(ops) + 1):
        if n == dropped or n in refused:
            continue
        tn += 1
        tmap[n] = twin_out.get(tn)
    # ---- per instance verdicts
    insts = sorted({o["inst"] for o in ops if o["inst"] >= 0})
    compared = 0
    begin = {o["inst"]: o for o in ops if o["op"] == "begin"}
    fault_inst = ops[k - 1]["inst"] if (fault is not None and 1 <= k <= len(ops)) else None
    restored = 0
    k2 = crash.get("k2")
    last_crash = max(k, k2) if k2 is not None else k
    if k2 is not None and "externalised2" in info:
        # durable state must survive a restart: what was externalised and intact at the first crash is
        # still there at the second one (nothing in these histories stops an instance)
        for j in sorted((info["externalised"] - info["damaged"]) - info["externalised2"]):
            res.violate("C20.5-durable-state-lost-by-restart", {"inst": j, "k": k, "k2": k2})

    def status_of(j, created_at, phase):
        kk = k if phase == 1 else last_crash
        ext = info["externalised"] if phase == 1 else info.get("externalised2", set())
        dam = info["damaged"] if phase == 1 else info.get("damaged2", set())
        if created_at is not None and created_at > kk:
            return "fresh"
        # a session that was begun but has not been stepped yet at the crash is not externalised: the durable
        # state still holds the previous session, which the property does not ask to be continued
        last_begin = max([n for n, o in enumerate(ops, start=1) if o["inst"] == j and o["op"] == "begin" and n <= kk] or [0])
        last_save = max([n for n, o in enumerate(ops, start=1) if (o["inst"] == j and o["op"] in SAVING or o["op"] == "save_state")
                         and n <= kk and n != dropped] or [0])
        if last_begin > last_save and last_save > 0:
            return "never_externalised"
        if j in dam:
            return "damaged"
        if j in ext:
            return "intact"
        return "never_externalised"

    for j in insts:
        created_at = next((n for n, o in enumerate(ops, start=1) if o["inst"] == j and o["op"] == "create"), None)
        after = [(n, o) for n, o in enumerate(ops, start=1) if o["inst"] == j and n > k]
        st1 = status_of(j, created_at, 1)
        st2 = status_of(j, created_at, 2) if k2 is not None else st1
        if st1 in ("never_externalised", "damaged"):
            st2 = st1       # what was lost at the first crash stays lost: the twin is no reference for it any more
        if "never_externalised" in (st1, st2):
            res.probe("never_externalised_instance_exempt")
        if "damaged" in (st1, st2):
            res.probe("damaged_file_contained")
        if st1 == "intact" or st2 == "intact":
            restored += 1
            if any(o.get("settings") for n, o in enumerate(ops, start=1) if o["inst"] == j and n <= k and n != dropped):
                res.probe("restored_with_settings_history")
        first = {1: True, 2: True}
        for n, o in after:
            eqs = next((x["equations"] for m_, x in reversed(list(enumerate(ops, start=1))) if x["inst"] == j and x["op"] == "begin" and m_ < n), [])
            phase = 2 if (k2 is not None and n > k2) else 1
            status = st2 if phase == 2 else st1
            if status in ("never_externalised", "damaged"):
                # exempt (never externalised) / costs at most this instance (damaged file)
                if phase == 1 and k2 is None:
                    break
                continue
            g = got.get(n)
            t = tmap.get(n)
            if g is None or t is None:
                continue
            if first[phase] and status == "intact":
                first[phase] = False
                if g[0] != 200 and t[0] == 200:
                    res.violate("C20.4-restored-instance-not-served", {"inst": j, "op_index": n, "op": o["op"], "status": g[0],
                                                                       "body": str(g[1])[:160], "k": k, "k2": k2, "fault": fault})
                    break
            compared += 1
            if o["op"] in SAVING and status == "intact":
                res.probe("restored_instance_stepped")
                bad = False
                for sr in _step_results(g[1]):
                    have = set()
                    for mgr in sr.values():
                        if isinstance(mgr, dict):
                            for sc in mgr.values():
                                if isinstance(sc, dict):
                                    have |= set(sc.keys())
                    missing = [e for e in eqs if e not in have]
                    if missing and g[0] == 200:
                        nsteps = sum((x.get("n", 1) if x["op"] == "steps" else 1) for m, x in enumerate(ops, start=1)
                                     if x["inst"] == j and x["op"] in SAVING and m <= k)
                        res.violate("C20.2-equation-missing", {"inst": j, "op_index": n, "missing": missing, "steps_before_crash": nsteps,
                                                               "k": k})
                        bad = True
                        break
                if bad:
                    break
            if g != t:
                res.violate("C20.1-continuation-differs", {"inst": j, "op_index": n, "op": o["op"], "k": k, "k2": k2, "fault": fault,
                                                           "stray": crash.get("stray"), "instance_status": status,
                                                           "restarted": [g[0], str(g[1])[:220]], "twin": [t[0], str(t[1])[:220]]})
                break
    if any(o["op"] == "save_state" for o in ops[:k]):
        res.probe("whole_server_save_state")
    if restored and ("runspecs" in str(case["config"]["model"]["managers"]) or any("runspecs" in str(o.get("settings")) for o in ops[:k])):
        res.probe("integer_run_specs")
    if restored >= 2:
        res.probe("several_instances_restored")
    if any(sum(1 for o in ops if o["inst"] == j and o["op"] == "begin") > 1 for j in insts):
        res.probe("second_session_in_instance")
    if any(o["op"] == "steps" and o.get("n", 0) >= 100 for o in ops[:k]):
        res.probe("long_history_restored")
    for j in insts:
        pre = [o for o in ops[:k] if o["inst"] == j and o["op"] in SAVING]
        if restored and sum(o.get("n", 1) if o["op"] == "steps" else 1 for o in pre) > 10 and len({repr(o.get("settings")) for o in pre}) > 1:
            res.probe("more_than_ten_steps_with_changing_settings")
    res.sim_units = sum((o.get("n", 1) if o["op"] == "steps" else 1) for o in ops if o["op"] in SAVING)
    res.nontrivial = compared > 0 and restored > 0 or bool(fault) or bool(crash.get("stray"))
    res.digest = log.digest()
    return res


def shrink(case):
    ops = case["ops"]
    k = case["crash"]["k"]
    # drop ops after the crash, then before it (keeping create/begin of instances that still have ops)
    for cand_idx in shrink_list(list(range(len(ops)))):
        keep = set(cand_idx)
        new_ops = [o for n, o in enumerate(ops) if n in keep]
        insts = {o["inst"] for o in new_ops if o["inst"] >= 0}
        ok = True
        for n_, o_ in enumerate(new_ops):
            if o_["op"] == "save_state":
                # the route cannot save an instance without a session: keep it only where everybody has begun
                created = {x["inst"] for x in new_ops[:n_] if x["op"] == "create"}
                begun = {x["inst"] for x in new_ops[:n_] if x["op"] == "begin"}
                if not created or not created <= begun:
                    ok = False
        for j in insts:
            seq = [o["op"] for o in new_ops if o["inst"] == j]
            if seq[:1] != ["create"] or (len(seq) > 1 and seq[1] != "begin"):
                ok = False
        if not ok or not new_ops:
            continue
        if case["crash"].get("fault") and (k - 1) not in keep:
            continue
        c = copy.deepcopy(case)
        c["ops"] = copy.deepcopy(new_ops)
        c["crash"]["k"] = sum(1 for n in range(len(ops)) if n in keep and n < k)
        if c["crash"].get("k2") is not None:
            c["crash"]["k2"] = sum(1 for n in range(len(ops)) if n in keep and n < case["crash"]["k2"])
        yield c
    for n, o in enumerate(ops):
        if o.get("settings"):
            c = copy.deepcopy(case)
            c["ops"][n]["settings"] = {}
            yield c
        if o["op"] == "steps" and o["n"] > 1:
            c = copy.deepcopy(case)
            c["ops"][n]["n"] = max(1, o["n"] // 2)
            yield c
    if case["crash"].get("stray") and case["crash"].get("fault"):
        c = copy.deepcopy(case)
        c["crash"]["stray"] = None
        yield c
    if case["config"]["adapter"] == "compressed":
        c = copy.deepcopy(case)
        c["config"]["adapter"] = "plain"
        yield c


def trigger(case, v, f):
    t = f["trigger"]["kind"]
    ops = case["ops"]
    k = case["crash"]["k"]
    if t == "settings_in_history_and_step_after_restart":
        return any(o.get("settings") for o in ops) and any(o["op"] in SAVING for o in ops[k:])
    if t == "long_history_before_restart":
        return sum((o.get("n", 1) if o["op"] == "steps" else 1) for o in ops[:k] if o["op"] in SAVING) >= 200
    if t == "compressed_adapter":
        return case["config"]["adapter"] == "compressed"
    if t == "compressed_and_grid_not_1_1":
        # the session's own grid (run specs in the begin-session settings; the scenarios of this check are all on start 1, dt 1)
        if case["config"]["adapter"] != "compressed":
            return False
        for o in ops:
            if o["op"] == "begin":
                for mgr in (o.get("settings") or {}).values():
                    for sc_ in (mgr or {}).values():
                        rs = (sc_ or {}).get("runspecs") or {}
                        if float(rs.get("starttime", 1.0)) != 1.0 or float(rs.get("dt", 1.0)) != 1.0:
                            return True
        return False
    if t == "compressed_and_nonuniform_settings":
        if case["config"]["adapter"] != "compressed":
            return False
        for j in {o["inst"] for o in ops if o["inst"] >= 0}:
            shapes = set()
            for o in ops:
                if o["inst"] == j and o["op"] in SAVING:
                    s_ = o.get("settings")
                    shapes.add("NONE" if s_ is None else "EMPTY" if not s_ else repr(sorted(_paths(s_))))
            if len(shapes) > 1 or "NONE" in shapes or "EMPTY" in shapes and len(shapes) > 1:
                return True
        return False
    return False


def _paths(d, pre=()):
    out = []
    if isinstance(d, dict) and d:
        for k_, v in d.items():
            if isinstance(v, dict):
                out += _paths(v, pre + (k_,))
            else:
                out.append("/".join(pre + (k_,)))
    return out


def neutralise(case, v, f):
    t = f["trigger"]["kind"]
    c = copy.deepcopy(case)
    if t == "settings_in_history_and_step_after_restart":
        for o in c["ops"]:
            if o.get("settings"):
                o["settings"] = {}
        return c
    if t == "long_history_before_restart":
        for o in c["ops"]:
            if o["op"] == "steps" and o["n"] > 20:
                o["n"] = 20
        return c
    if t in ("compressed_adapter", "compressed_and_nonuniform_settings", "compressed_and_grid_not_1_1"):
        c["config"]["adapter"] = "plain"
        return c
    return None
