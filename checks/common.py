"""Helpers shared by the check modules."""
import copy
import itertools


def shrink_list(lst, min_len=0):
    """ddmin-style candidates: drop large chunks first, then single elements."""
    n = len(lst)
    if n <= min_len:
        return
    size = n // 2
    seen = set()
    while size >= 1:
        for start in range(0, n, size):
            cand = lst[:start] + lst[start + size:]
            if len(cand) < min_len:
                continue
            key = (start, size)
            if key in seen:
                continue
            seen.add(key)
            yield cand
        size //= 2


def with_key(case, key, value):
    c = copy.deepcopy(case)
    c[key] = value
    return c


def shrink_sched(case):
    """Candidates with fewer recorded pre-emptions (only for explicit replay schedules)."""
    s = case.get("sched") or {}
    if s.get("kind") != "replay":
        return
    pre = s.get("preemptions", [])
    for cand in shrink_list(pre):
        c = copy.deepcopy(case)
        c["sched"] = {"kind": "replay", "preemptions": cand}
        yield c


def times_of_step_result(d):
    """{'mgr': {'scen': {'eq': {'3.0': v}}}} -> sorted distinct float times, or None if the
    structure is not a step result."""
    if not isinstance(d, dict) or "msg" in d or "error" in d:
        return None
    ts = set()
    for mgr, scs in d.items():
        if not isinstance(scs, dict):
            return None
        for sc, eqs in scs.items():
            if not isinstance(eqs, dict):
                return None
            for eq, tv in eqs.items():
                if not isinstance(tv, dict):
                    return None
                for t in tv:
                    try:
                        ts.add(float(t))
                    except (TypeError, ValueError):
                        return None
    return sorted(ts)


def feq(a, b, tol=1e-9):
    return abs(float(a) - float(b)) <= tol * max(1.0, abs(float(a)), abs(float(b)))


def counter_add(d, k, n=1):
    d[k] = d.get(k, 0) + n
