"""Run the checks against the independently seeded changes kept under /verif/seeded/<id>/.

    run.py seeded [<id>|all] [--thorough-budget S]

For every seeded change: copy the repository (without .git) to a scratch directory, apply
patch.diff there (never to /repo), run the demonstration (must fail with the change and pass
on the untouched copy), then run the quick check of the property against the patched copy
(VERIF_REPO) and, if that does not report it, the thorough check with a time budget.
Writes /verif/seeded/RESULTS.md and results.json.
"""
import json
import os
import shutil
import subprocess
import sys
import tempfile
import time

HERE = os.path.dirname(os.path.dirname(os.path.abspath(__file__)))
SEEDED = os.path.join(HERE, "seeded")
PY = sys.executable


def _copy_repo(dst):
    repo = os.environ.get("VERIF_REPO_SRC", "/repo")
    shutil.copytree(repo, dst, ignore=shutil.ignore_patterns(".git", "__pycache__", "*.egg-info", "state"))
    os.makedirs(os.path.join(dst, "state"), exist_ok=True)


def _demo(root, sid):
    src = os.path.join(SEEDED, sid, "demo.py")
    ddir = os.path.join(root, "seeded", "change")
    os.makedirs(ddir, exist_ok=True)
    shutil.copy(src, os.path.join(ddir, "demo.py"))
    for extra in os.listdir(os.path.join(SEEDED, sid)):
        if extra not in ("demo.py", "patch.diff", "meta.json"):
            p = os.path.join(SEEDED, sid, extra)
            if os.path.isfile(p):
                shutil.copy(p, os.path.join(ddir, extra))
    env = dict(os.environ)
    env["PYTHONPATH"] = root
    env.pop("VERIF_REPO", None)
    p = subprocess.run([PY, os.path.join("seeded", "change", "demo.py")], cwd=root, env=env, capture_output=True, text=True, timeout=600)
    return p.returncode, (p.stdout + p.stderr)[-400:]


def _check(root, prop, tier, budget=None):
    env = dict(os.environ)
    env["VERIF_REPO"] = root
    env["VERIF_EVIDENCE_DIR"] = os.path.join(root, "_evidence")
    env["VERIF_REPLAY_DIR"] = os.path.join(root, "_replays")
    if budget:
        env["VERIF_BUDGET_S"] = str(budget)
    t0 = time.time()
    p = subprocess.run([PY, os.path.join(HERE, "run.py"), "check", prop, "--tier", tier], env=env, capture_output=True, text=True,
                       timeout=(budget or 600) + 1200)
    lines = p.stdout.splitlines()
    viol = [l for l in lines if l.startswith("VIOLATION")]
    clause = [l.strip() for l in lines if l.strip().startswith("clause=")]
    return {"exit": p.returncode, "violations": len(viol), "first": clause[0][:220] if clause else "", "wall": round(time.time() - t0, 1),
            "tail": "\n".join(lines[-2:])[-300:]}


def run_one(sid, thorough_budget=180):
    meta = json.load(open(os.path.join(SEEDED, sid, "meta.json")))
    props = meta.get("checked_by") or [meta["property"]]
    out = {"id": sid, "property": meta["property"], "summary": meta.get("summary", ""), "needs": meta.get("needs_to_manifest", "")}
    tmp = tempfile.mkdtemp(prefix="verif-seed-%d-" % os.getpid())
    root = os.path.join(tmp, "repo")
    try:
        _copy_repo(root)
        rc0, _ = _demo(root, sid)
        out["demo_untouched_exit"] = rc0
        ap = subprocess.run(["git", "apply", "--whitespace=nowarn", os.path.join(SEEDED, sid, "patch.diff")], cwd=root, capture_output=True, text=True)
        if ap.returncode != 0:
            out["error"] = "patch does not apply: " + ap.stderr[-200:]
            return out
        rc1, tail = _demo(root, sid)
        out["demo_patched_exit"] = rc1
        out["caught_by"] = None
        out["runs"] = []
        if rc1 == 0 and meta.get("superseded_by_fix"):
            # the demonstration passes with the change applied: a later repair of the repository removed the
            # condition the change needed, it is behaviour-preserving on the current tree
            out["caught_by"] = "n/a - no longer a defect (%s)" % meta["superseded_by_fix"]
            return out
        for prop in props:
            r = _check(root, prop, "quick")
            r["property"] = prop
            r["tier"] = "quick"
            out["runs"].append(r)
            if r["exit"] == 1 and r["violations"] > 0:
                out["caught_by"] = "%s quick" % prop
                out["clause"] = r["first"]
                break
        if out["caught_by"] is None and thorough_budget:
            for prop in props:
                r = _check(root, prop, "thorough", thorough_budget)
                r["property"] = prop
                r["tier"] = "thorough(%ds)" % thorough_budget
                out["runs"].append(r)
                if r["exit"] == 1 and r["violations"] > 0:
                    out["caught_by"] = "%s thorough" % prop
                    out["clause"] = r["first"]
                    break
        return out
    finally:
        shutil.rmtree(tmp, ignore_errors=True)


def main(argv):
    sel = argv[0] if argv and not argv[0].startswith("--") else "all"
    budget = 180
    if "--thorough-budget" in argv:
        budget = int(argv[argv.index("--thorough-budget") + 1])
    if sel == "merge":
        # merge shard result files (paths given after "merge") into results.json and rewrite RESULTS.md
        rj0 = os.path.join(SEEDED, "results.json")
        prev = {r["id"]: r for r in json.load(open(rj0))} if os.path.exists(rj0) else {}
        for pth in argv[1:]:
            for r in json.load(open(pth)):
                prev[r["id"]] = r
        with open(rj0, "w") as f:
            json.dump([prev[k] for k in sorted(prev, key=lambda d: (d.split("-")[0], int(d.split("-")[1])))], f, indent=1)
        argv = ["NONE-0"]
        sel = "NONE-0"
    ids = sorted((d for d in os.listdir(SEEDED) if os.path.isdir(os.path.join(SEEDED, d)) and os.path.exists(os.path.join(SEEDED, d, "patch.diff"))),
                 key=lambda d: (d.split("-")[0], int(d.split("-")[1])))
    if sel != "all":
        ids = [i for i in ids if i == sel or ("-" not in sel and i.startswith(sel + "-"))]
    results = []
    prev = {}
    rj = os.environ.get("VERIF_SEEDED_RESULTS") or os.path.join(SEEDED, "results.json")      # (a shard writes its own file; merged by `seeded merge`)
    if os.path.exists(rj):
        prev = {r["id"]: r for r in json.load(open(rj))}
    for sid in ids:
        r = run_one(sid, budget)
        results.append(r)
        prev[sid] = r
        print("SEEDED %-10s %-4s demo(untouched/patched)=%s/%s caught_by=%s %s" % (sid, r["property"], r.get("demo_untouched_exit"), r.get("demo_patched_exit"),
                                                                                r.get("caught_by"), (r.get("clause") or r.get("error") or "")[:150]))
        sys.stdout.flush()
    allr = [prev[k] for k in sorted(prev, key=lambda d: (d.split("-")[0], int(d.split("-")[1])))]
    with open(rj, "w") as f:
        json.dump(allr, f, indent=1)
    if os.environ.get("VERIF_SEEDED_RESULTS"):
        missed = [r["id"] for r in results if not r.get("caught_by")]
        print("seeded (shard): %d run, %d caught, missed: %s" % (len(results), len(results) - len(missed), missed))
        return 0 if not missed else 1
    with open(os.path.join(SEEDED, "RESULTS.md"), "w") as f:
        f.write("# Seeded changes and the checks that catch them\n\n")
        f.write("Regenerate with `/venv/bin/python /verif/run.py seeded all`. Each change is applied to a scratch copy of the repository only.\n\n")
        f.write("| id | property | what the change does | needs to manifest | demo untouched / patched | caught by | clause |\n|---|---|---|---|---|---|---|\n")
        for r in allr:
            f.write("| %s | %s | %s | %s | %s / %s | %s | %s |\n" % (r["id"], r["property"], r["summary"].replace("|", "/")[:160], r["needs"].replace("|", "/")[:160],
                                                                 r.get("demo_untouched_exit"), r.get("demo_patched_exit"), r.get("caught_by") or "**missed**",
                                                                 (r.get("clause") or "").split(" detail=")[0].replace("clause=", "")))
    missed = [r["id"] for r in results if not r.get("caught_by")]
    print("seeded: %d run, %d caught, missed: %s" % (len(results), len(results) - len(missed), missed))
    return 0 if not missed else 1
