#!/bin/bash
# complete validation of the machinery as committed: quick tier of every check for seeds 0-3, the mutant catalogue, all seeded changes
for seed in 0 1 2 3; do
  for c in C06 C07 C08 C09 C11 C12 C13 C14 C15 C16 C17 C18 C19 C20; do
    VERIF_SEED=$seed VERIF_EVIDENCE_DIR=./_ev_regress VERIF_REPLAY_DIR=./_rp_regress timeout 1800 /venv/bin/python ./run.py check $c --tier quick 2>&1 | grep -E "^(VIOLATION|HARNESS|property=|  clause)" | cut -c1-300 | sed "s/^/seed=$seed /"
  done
done
/venv/bin/python ./run.py mutants all 2>&1 | grep -E "^MUTANT|^mutants" | cut -c1-200
/venv/bin/python ./run.py seeded all --thorough-budget 0 2>&1 | grep -E "^SEEDED|^seeded" | cut -c1-200
