"""One real server incarnation in its own process, on a real directory (C20 cross-check of the
in-process restart model).  Reads a JSON job on stdin, prints a JSON result on stdout."""
import json
import os
import sys


def main():
    job = json.load(sys.stdin)
    here = os.path.dirname(os.path.dirname(os.path.abspath(__file__)))
    repo = os.environ.get("VERIF_REPO", "/repo")
    sys.path.insert(0, here)
    sys.path.insert(0, repo)
    import warnings
    warnings.filterwarnings("ignore")
    os.chdir(job["cwd"])
    import BPTK_Py  # noqa
    from BPTK_Py.server import BptkServer
    from BPTK_Py.externalstateadapter import FileAdapter
    from worlds.server_world import configure_bptk_globals
    from models import sd_templates as T
    import copy
    configure_bptk_globals()
    mc = job["model"]

    def factory():
        model = T.build(mc["template"], mc["start"], mc["stop"], mc["dt"], constants=mc.get("constants"), points=mc.get("points"),
                        initial=mc.get("initial"))
        b = BPTK_Py.bptk()
        for mgr, scenarios in mc["managers"].items():
            b.register_scenario_manager({mgr: {"model": model}})
            b.register_scenarios(scenario_manager=mgr, scenarios=copy.deepcopy(scenarios))
        return b
    devnull = open(os.devnull, "w")
    real_stdout = sys.stdout
    sys.stdout = devnull          # the adapter prints on unreadable files
    result = {"responses": {}, "ids": dict(job.get("ids", {})), "boot_error": None}
    try:
        try:
            app = BptkServer("child", factory, FileAdapter(job["adapter"] == "compressed", job["dir"]))
        except Exception as e:
            result["boot_error"] = "%s: %s" % (type(e).__name__, e)
            app = None
        if app is not None:
            app.logger.disabled = True
            c = app.test_client()
            ids = result["ids"]
            for n, o in job["ops"]:
                j = str(o["inst"])
                op = o["op"]
                if op == "save_state":
                    r = c.get("/save-state")
                elif op == "load_state":
                    r = c.post("/load-state")
                elif op == "create":
                    r = c.post("/start-instance", json={"timeout": {"hours": 12}})
                    try:
                        ids[j] = json.loads(r.get_data(as_text=True))["instance_uuid"]
                    except Exception:
                        pass
                else:
                    iid = ids.get(j, "missing%s" % j)
                    if op == "begin":
                        r = c.post("/%s/begin-session" % iid, json={"scenario_managers": ["smA"], "scenarios": o["scenarios"],
                                                                    "equations": o["equations"], "settings": o["settings"]})
                    elif op == "step":
                        r = c.post("/%s/run-step" % iid) if o["settings"] is None else c.post("/%s/run-step" % iid, json={"settings": o["settings"]})
                    elif op == "steps":
                        r = c.post("/%s/run-steps" % iid, json={"settings": o["settings"], "numberSteps": o["n"]})
                    elif op == "stream":
                        r = c.post("/%s/stream-steps" % iid, json={"settings": o["settings"]})
                    elif op == "stream_cut":
                        kw = {} if o["settings"] is None else {"json": {"settings": o["settings"]}}
                        r0 = c.open("/%s/stream-steps" % iid, method="POST", buffered=False, **kw)
                        parts = []
                        it = iter(r0.response)
                        for _ in range(o["chunks"]):
                            try:
                                ch = next(it)
                            except StopIteration:
                                break
                            parts.append(ch if isinstance(ch, str) else ch.decode())
                        r0.close()

                        class _R:
                            status_code = r0.status_code

                            @staticmethod
                            def get_data(as_text=True):
                                canon_parts = []
                                for ch_ in parts:
                                    try:
                                        canon_parts.append(json.loads(ch_))
                                    except Exception:
                                        canon_parts.append(ch_)
                                return json.dumps(canon_parts, sort_keys=True)
                        r = _R
                    elif op == "results":
                        r = c.get("/%s/session-results" % iid)
                    elif op == "flat":
                        r = c.get("/%s/flat-session-results" % iid)
                    elif op == "keep_alive":
                        r = c.post("/%s/keep-alive" % iid)
                    else:
                        raise ValueError(op)
                text = r.get_data(as_text=True)
                for jj, iid in ids.items():
                    text = text.replace(iid, "INST%s" % jj)
                try:
                    body = json.loads(text)
                except Exception:
                    body = text
                result["responses"][str(n)] = [r.status_code, body]
    finally:
        sys.stdout = real_stdout
    print("RESULT " + json.dumps(result))


if __name__ == "__main__":
    main()
