"""Sensitivity self-test: a catalogue of small source mutations, each applied to a scratch
copy of the repository's package (never to /repo), each expected to be reported by the quick
check of its property.

    run.py mutants [PROPERTY|all] [--keep-going]

Exit 0 = every mutant was reported (exit 1 + VIOLATION line by the check), 1 = some survived.
"""
import os
import shutil
import subprocess
import sys
import tempfile
import time

HERE = os.path.dirname(os.path.dirname(os.path.abspath(__file__)))

S = "BPTK_Py/server/bptkServer.py"
B = "BPTK_Py/bptk.py"
M = "BPTK_Py/modeling/model.py"
ESA = "BPTK_Py/externalstateadapter/externalStateAdapter.py"
SCH = "BPTK_Py/modeling/simultaneousScheduler.py"
SCHB = "BPTK_Py/modeling/scheduler.py"
DC = "BPTK_Py/modeling/dataCollector.py"
AG = "BPTK_Py/modeling/agent.py"
SMSD = "BPTK_Py/scenariomanager/scenario_manager_sd.py"
SCN = "BPTK_Py/scenariomanager/scenario.py"
SDR = "BPTK_Py/scenariorunners/sd_runner.py"
SDS = "BPTK_Py/sdsimulation/sd_simulation.py"
HR = "BPTK_Py/scenariorunners/hybrid_runner.py"
STK = "BPTK_Py/sddsl/stock.py"
EL = "BPTK_Py/sddsl/element.py"
SC = "BPTK_Py/util/statecompression.py"

MUTANTS = [
    # ---- C18
    {"id": "c18-runstep-no-lock", "property": "C18", "file": S,
     "old": "        if not instance.lock():\n            resp = make_response('{\"error\": \"instace is locked\"}', 500)\n            resp.headers['Content-Type'] = 'application/json'\n            resp.headers['Access-Control-Allow-Origin'] = '*'\n            return resp\n\n        try:\n            if not request.is_json:\n                result = instance.run_step()",
     "new": "        if instance.is_locked():\n            resp = make_response('{\"error\": \"instace is locked\"}', 500)\n            resp.headers['Content-Type'] = 'application/json'\n            resp.headers['Access-Control-Allow-Origin'] = '*'\n            return resp\n\n        try:\n            if not request.is_json:\n                result = instance.run_step()",
     "note": "run-step checks the flag but does not take the lock (and then releases somebody else's)"},
    {"id": "c18-lock-not-atomic", "property": "C18", "file": B,
     "old": "        acquired = self._step_lock.acquire(blocking=False)\n",
     "new": "        acquired = not self._step_lock.locked()\n        if acquired:\n            self._step_lock.acquire(blocking=False)\n",
     "note": "check-then-acquire instead of an atomic try-lock"},
    {"id": "c18-stream-no-unlock-on-completion", "property": "C18", "file": S,
     "old": "            except:\n                pass\n            finally:\n                try:\n                    # externalise while the step lock is still held (see run-step)\n                    if self._external_state_adapter != None:\n                        self._external_state_adapter.save_instance(self._instance_manager._get_instance_state(instance_uuid))\n                finally:\n                    release_lock()\n",
     "new": "            except:\n                release_lock()\n            if self._external_state_adapter != None:\n                self._external_state_adapter.save_instance(self._instance_manager._get_instance_state(instance_uuid))\n",
     "edits": [("        resp.call_on_close(release_lock)\n", "")],
     "note": "stream unlocks only in its error path (and no release on close)"},
    {"id": "c18-runsteps-no-unlock-on-error", "property": "C18", "file": S,
     "old": "        except:\n            pass\n        finally:\n            try:\n                # externalise while the step lock is still held (see run-step)\n                if stepping and self._external_state_adapter != None:\n                    self._external_state_adapter.save_instance(self._instance_manager._get_instance_state(instance_uuid))\n            finally:\n                if locked:\n                    instance.unlock()\n",
     "new": "            if stepping and self._external_state_adapter != None:\n                self._external_state_adapter.save_instance(self._instance_manager._get_instance_state(instance_uuid))\n            if locked:\n                instance.unlock()\n        except:\n            pass\n",
     "note": "run-steps does not release the lock when a step raises"},
    {"id": "c18-stream-lock-after-first-step", "property": "C18", "file": S,
     "old": "        lock_held = [True]\n",
     "new": "        instance.unlock()\n        lock_held = [False]\n",
     "note": "stream gives the lock up right away: other requests may interleave"},
    # ---- C06
    {"id": "c06-clone-is-base-model", "property": "C06", "file": SMSD,
     "old": "        if not model:\n            return None\n", "new": "        if not model:\n            return None\n        return model\n"},
    {"id": "c06-clones-share-memo", "property": "C06", "file": SMSD,
     "old": "        new_mod.points = copy.deepcopy(model.points)", "new": "        new_mod.points = copy.deepcopy(model.points)\n        new_mod.memo = model.memo"},
    {"id": "c06-clones-share-points", "property": "C06", "file": SMSD,
     "old": "        new_mod.points = copy.deepcopy(model.points)", "new": "        new_mod.points = model.points"},
    {"id": "c06-clones-share-equations", "property": "C06", "file": SMSD,
     "old": "        new_mod.points = copy.deepcopy(model.points)", "new": "        new_mod.points = copy.deepcopy(model.points)\n        new_mod.equations = model.equations"},
    {"id": "c06-settings-written-to-base-constants", "property": "C06", "file": SCN,
     "old": "            for key, value in dictionary[\"constants\"].items():\n                self.constants[key] = value\n",
     "new": "            for key, value in dictionary[\"constants\"].items():\n                self.constants[key] = value\n                SimulationScenario._last = getattr(SimulationScenario, '_last', {})\n                SimulationScenario._last[key] = value\n",
     "edits": [("        if \"constants\" in dictionary:\n            # Overwrite base constants (if any)\n            self.constants = dictionary[\"constants\"]\n",
                "        if \"constants\" in dictionary:\n            # Overwrite base constants (if any)\n            self.constants = dictionary[\"constants\"]\n            self.constants.update(getattr(SimulationScenario, '_last', {}))\n")],
     "note": "session settings of one scenario leak into scenarios registered later (class-level residue)"},
    {"id": "c06-reset-cache-hits-all-scenarios-sim", "property": "C06", "file": B,
     "old": "        scenario = self.scenario_manager_factory.get_scenario(scenario_manager=scenario_manager, scenario=scenario)\n        scenario.reset_cache()",
     "new": "        scenario = self.scenario_manager_factory.get_scenario(scenario_manager=scenario_manager, scenario=scenario)\n        scenario.reset_cache()\n        for sc in self.scenario_manager_factory.scenario_managers[scenario_manager].scenarios.values():\n            sc.sd_simulation = None",
     "note": "resetting one scenario kills the live session simulation of its siblings"},
    {"id": "c06-rest-run-settings-to-all-scenarios", "property": "C06", "file": S,
     "old": "                            scenario.constants[constant_name]=constant_settings\n",
     "new": "                            for other in self._bptk.scenario_manager_factory.scenario_managers[scenario_manager_name].scenarios.values():\n                                other.constants[constant_name]=constant_settings\n"},
    {"id": "c06-scenario-constants-alias-base-constants", "property": "C06", "file": SMSD,
     "old": "                    scenario[\"constants\"] = {}\n\n                for const, value in self.base_constants.items():\n                    if not const in scenario[\"constants\"].keys():\n                        scenario[\"constants\"][const] = value",
     "new": "                    scenario[\"constants\"] = self.base_constants\n\n                for const, value in self.base_constants.items():\n                    if not const in scenario[\"constants\"].keys():\n                        scenario[\"constants\"][const] = value",
     "note": "a scenario without own constants aliases the manager's base_constants dict: later settings for it change the defaults of scenarios added afterwards"},
    # ---- C07
    {"id": "c07-startime-typo", "property": "C07", "file": SDS,
     "old": "        self.mod.starttime = starttime\n", "new": "        self.mod.startime = starttime\n"},
    {"id": "c07-base-constants-override-scenario", "property": "C07", "file": SMSD,
     "old": "                for const, value in self.base_constants.items():\n                    if not const in scenario[\"constants\"].keys():\n                        scenario[\"constants\"][const] = value",
     "new": "                for const, value in self.base_constants.items():\n                    if True:\n                        scenario[\"constants\"][const] = value"},
    {"id": "c07-file-base-constants-override-scenario", "property": "C07", "file": SMSD,
     "old": "                for const, value in self.base_constants.items():\n                    if not const in scenario_dict[\"constants\"].keys():\n                        scenario_dict[\"constants\"][const] = value",
     "new": "                for const, value in self.base_constants.items():\n                    if True:\n                        scenario_dict[\"constants\"][const] = value"},
    {"id": "c07-string-points-not-evaluated", "property": "C07", "file": SDS,
     "old": "            self.mod.points[name] = eval(str(value))", "new": "            self.mod.points[name] = value"},
    {"id": "c07-rest-stoptime-to-starttime", "property": "C07", "file": S,
     "old": "                            scenario.stoptime = runspecs[\"stoptime\"]", "new": "                            scenario.starttime = runspecs[\"stoptime\"]"},
    {"id": "c07-file-runspecs-overwritten", "property": "C07", "file": SMSD,
     "old": "                    scenario.dt = runspecs[\"dt\"] if \"dt\" in runspecs else scenario.model.dt", "new": "                    scenario.dt = scenario.model.dt"},
    {"id": "c07-base-constants-only-from-last-file", "property": "C07", "file": "BPTK_Py/scenariomanager/scenario_manager_factory.py",
     "old": "        base_constants = {}\n        for filename in filenames:\n            if not os.path.isdir(filename):\n                from ..modelparser import ParserFactory\n\n                parser_class = ParserFactory(filename)\n\n                if parser_class:\n                    meta_model",
     "new": "        base_constants = {}\n        for filename in filenames[:1]:\n            if not os.path.isdir(filename):\n                from ..modelparser import ParserFactory\n\n                parser_class = ParserFactory(filename)\n\n                if parser_class:\n                    meta_model",
     "note": "base constants are looked up in the first scenario file only"},
    {"id": "c07-session-settings-points-ignored", "property": "C07", "file": SCN,
     "old": "        if \"points\" in dictionary:\n            for key, value in dictionary[\"points\"].items():\n                self.points[key] = value",
     "new": "        if \"points\" in dictionary and False:\n            for key, value in dictionary[\"points\"].items():\n                self.points[key] = value"},
    {"id": "c07-scenario-points-rebind-model-points", "property": "C07", "file": SCN,
     "old": "                for points_name, points_value in self.points.items():\n                    self.model.points[points_name] = points_value if type(points_value) is list else eval(str(points_value))",
     "new": "                self.model.points = self.points"},
    # ---- C08
    {"id": "c08-memoize-plain-store", "property": "C08", "file": M,
     "old": "            result = mymemo.setdefault(normalized_arg, result)", "new": "            mymemo[normalized_arg] = result"},
    {"id": "c08-memoize-returns-own-result", "property": "C08", "file": M,
     "old": "            result = mymemo.setdefault(normalized_arg, result)", "new": "            mymemo.setdefault(normalized_arg, result)",
     "note": "stores the first value but returns each thread's own"},
    {"id": "c08-stock-initial-no-reset", "property": "C08", "file": STK,
     "old": "            self.model.reset_cache() # elements that depend on this stock have memoized values based on the old initial value\n", "new": ""},
    {"id": "c08-element-setter-no-reset", "property": "C08", "file": EL,
     "old": "            self._equation = None\n        self.model.reset_cache()\n        self._function_string",
     "new": "            self._equation = None\n        self._function_string"},
    {"id": "c08-constant-setter-no-reset", "property": "C08", "file": "BPTK_Py/sddsl/constant.py",
     "old": "        self.model.reset_cache()\n        self.generate_function()", "new": "        self.generate_function()"},
    {"id": "c08-flow-setter-no-reset", "property": "C08", "file": "BPTK_Py/sddsl/flow.py",
     "old": "            self._equation = equation\n        self.model.reset_cache()\n", "new": "            self._equation = equation\n"},
    {"id": "c08-reset-cache-skips-stocks", "property": "C08", "file": M,
     "old": "        for equation in self.memo:\n            self.memo[equation] = {}",
     "new": "        for equation in self.memo:\n            if equation not in self.stocks:\n                self.memo[equation] = {}"},
    # ---- C09
    {"id": "c09-clock-bare-addition", "property": "C09", "file": B,
     "old": "        self.session_state[\"step\"]=fp.normalize(step+dt, base=dt, offset=starttime, precision=max(fp.scale(starttime), fp.scale(dt)))",
     "new": "        self.session_state[\"step\"]=step+dt"},
    {"id": "c09-session-default-dt-one", "property": "C09", "file": B,
     "old": "            dt = scenario_dts.pop() if len(scenario_dts) == 1 else 1.0", "new": "            dt = 1.0"},
    {"id": "c09-df-aligned-to-first-scenario", "property": "C09", "file": SDR,
     "old": "                        plot_df = pd.concat([plot_df, series], axis=1, sort=True)\n                        plot_df.index.name = series.index.name\n",
     "new": "                        plot_df[series.name] = series\n"},
    {"id": "c09-range-until-plus-dt", "property": "C09", "file": SDS,
     "old": "        for i in timerange(start, until, self.mod.dt, exclusive=False):", "new": "        for i in timerange(start, until+self.mod.dt, self.mod.dt):"},
    {"id": "c09-step-settings-rewrite-the-past", "property": "C09", "file": SDR,
     "old": "                                for name in list(mod.equations.keys()):\n                                    try:\n                                        mod.equation(name, past)\n                                    except Exception:\n                                        pass # not an equation of time alone\n",
     "new": "                                pass\n",
     "note": "reversal of 8defaf8 (which subsumes 85d16ad: with everything of the earlier steps evaluated, removing only the pre-evaluation of the current step's stocks no longer changes anything)"},
    {"id": "c09-session-results-drops-last-step", "property": "C09", "file": B,
     "old": "                                for step, step_result in self.session_state[\"results_log\"].items():",
     "new": "                                for step, step_result in list(self.session_state[\"results_log\"].items())[:-1] if len(self.session_state[\"results_log\"]) > 3 else self.session_state[\"results_log\"].items():"},
    {"id": "c09-flat-picks-last-key", "property": "C09", "file": B,
     "old": "results[manager.name][scenario][\"equations\"][equation].append(step_result[manager.name][scenario][equation][step])",
     "new": "results[manager.name][scenario][\"equations\"][equation].append(step_result[manager.name][scenario][self.session_state[\"equations\"][-1]][step])",
     "note": "flat results of every equation carry the values of the last equation"},
    {"id": "c09-json-format-rounds", "property": "C09", "file": SDR,
     "old": "[\"equations\"][equation]= df[equation].to_dict()", "new": "[\"equations\"][equation]= df[equation].round(1).to_dict()"},
    {"id": "c09-stream-skips-last-step", "property": "C09", "file": S,
     "old": "                while instance.progress() <= 1.0:", "new": "                while instance.progress() < 1.0:"},
    {"id": "c09-rest-run-drops-first-row", "property": "C09", "file": SDR,
     "old": "            if return_format==\"dict\" or return_format==\"json\":\n                simulation_results=sd_results_dict",
     "new": "            if return_format==\"dict\" or return_format==\"json\":\n                simulation_results=sd_results_dict\n                if return_format==\"json\" and len(df) > 12:\n                    for e_ in sd_results_dict[scenarios[scenario].scenario_manager][scenarios[scenario].name][\"equations\"].values():\n                        e_.pop(list(e_)[0], None)",
     "note": "long json results lose their first time"},
    # ---- C11
    {"id": "c11-route-by-position", "property": "C11", "file": SCH,
     "old": "                receiver = model.agent(event.receiver_id)\n", "new": "                receiver = model.agents[event.receiver_id] if event.receiver_id < len(model.agents) else None\n"},
    {"id": "c11-queue-lifo", "property": "C11", "file": SCH,
     "old": "model.events.pop(0)", "new": "model.events.pop()"},
    {"id": "c11-inbox-lifo", "property": "C11", "file": AG,
     "old": "                event = self.events.pop(0)\n", "new": "                event = self.events.pop()\n"},
    {"id": "c11-float-countdown", "property": "C11", "file": SCHB,
     "old": "                event.delay = round(event.delay - dt, 10) # do not let float errors of the countdown add a step (1.0 - 5*0.2 > 0)\n",
     "new": "                event.delay -= dt\n"},
    {"id": "c11-deliver-same-step", "property": "C11", "file": SCHB,
     "old": "            if event.delay > 0:", "new": "            if event.delay > dt:",
     "note": "delayed events arrive one step early"},
    {"id": "c11-delay-decremented-twice", "property": "C11", "file": SCHB,
     "old": "                self.delayed_events += [event]\n", "new": "                event.delay = event.delay - dt if event.delay > 2 * dt else event.delay\n                self.delayed_events += [event]\n"},
    {"id": "c11-delayed-events-dropped-at-round-end", "property": "C11", "file": SCH,
     "old": "        model.events += self.delayed_events\n", "new": "        model.events += self.delayed_events if step == 0 else []\n",
     "note": "delayed events survive only when requeued in the first step of a round (invisible for dt = 1)"},
    {"id": "c11-event-delivered-twice-after-create", "property": "C11", "file": M,
     "old": "        agent.initialize()\n        self.agents.append(agent)\n", "new": "        agent.initialize()\n        self.agents.append(agent)\n        self.events += [e for e in self.events if e.receiver_id == agent.id - 1][:1]\n"},
    {"id": "c11-dead-receiver-falls-to-first-agent", "property": "C11", "file": SCH,
     "old": "                if receiver is not None:\n", "new": "                if receiver is None and model.agents:\n                    receiver = model.agents[0]\n                if receiver is not None:\n"},
    # ---- C12
    {"id": "c12-range-stop-exclusive", "property": "C12", "file": SCH,
     "old": "range(model.starttime, model.stoptime + 1)", "new": "range(model.starttime, model.stoptime)"},
    {"id": "c12-act-before-handle", "property": "C12", "file": SCH,
     "old": "            agent.handle_events(time, sim_round, step)\n            agent.act(time, sim_round, step)",
     "new": "            agent.act(time, sim_round, step)\n            agent.handle_events(time, sim_round, step)"},
    {"id": "c12-time-ignores-dt", "property": "C12", "file": SCH,
     "old": "        time = sim_round + step * model.dt", "new": "        time = sim_round + step"},
    {"id": "c12-collect-although-off", "property": "C12", "file": SCH,
     "old": "                if sim_round == model.stoptime and step == (round(1 / model.dt) - 1):", "new": "                if True:"},
    {"id": "c12-final-collect-first-step-of-last-round", "property": "C12", "file": SCH,
     "old": "                if sim_round == model.stoptime and step == (round(1 / model.dt) - 1):", "new": "                if sim_round == model.stoptime and step == 0:"},
    {"id": "c12-steps-per-round-truncated", "property": "C12", "file": SCH,
     "old": "                for step in range(round(1 / model.dt)):", "new": "                for step in range(int(1 / model.dt)):",
     "note": "int(1/0.1) == 10 but int(1/0.2)... all fine; int(1/0.3) differs - survives unless dt with inexact reciprocal"},
    {"id": "c12-end-round-before-agents", "property": "C12", "file": SCH,
     "old": "        model.begin_round(time, sim_round, step)\n", "new": "        model.begin_round(time, sim_round, step)\n        model.end_round(time, sim_round, step)\n",
     "edits": [("            agent.act(time, sim_round, step)\n\n        model.end_round(time, sim_round, step)\n", "            agent.act(time, sim_round, step)\n")]},
    {"id": "c12-shared-scheduler-state", "property": "C12", "file": "BPTK_Py/scenariomanager/scenario_manager_hybrid.py",
     "old": "                    scenario.scheduler = SimultaneousScheduler()\n                    scenario.data_collector = DataCollector() if not scenario.data_collector else scenario.data_collector",
     "new": "                    scenario.scheduler = self.model.scheduler\n                    scenario.data_collector = DataCollector() if not scenario.data_collector else scenario.data_collector",
     "note": "all scenarios share the base model's scheduler object (its delayed_events list and running flag)"},
    {"id": "c12-skip-first-agent-when-many", "property": "C12", "file": SCH,
     "old": "        for agent in model.agents:\n            agent.handle_events", "new": "        for agent in (model.agents if len(model.agents) < 6 else model.agents[1:]):\n            agent.handle_events"},
    # ---- C13
    {"id": "c13-mean-over-type-count", "property": "C13", "file": DC,
     "old": "                                    self.agent_statistics[time][agent.agent_type][agent.state][\"count\"]\n                        )",
     "new": "                                    sum(s[\"count\"] for s in self.agent_statistics[time][agent.agent_type].values())\n                        )"},
    {"id": "c13-min-starts-at-zero", "property": "C13", "file": DC,
     "old": "                                \"total\": 0, \"max\": None, \"min\": None}", "new": "                                \"total\": 0, \"max\": None, \"min\": 0}",
     "edits": [("                            [agent_property_name][\"min\"]) = agent_property_value[\"value\"]\n\n\n                        else:",
                "                            [agent_property_name][\"min\"]) = min(0, agent_property_value[\"value\"])\n\n\n                        else:")]},
    {"id": "c13-fillna-removed", "property": "C13", "file": HR,
     "old": "        return pd.DataFrame(output, index=list(data.keys())).fillna(0)", "new": "        return pd.DataFrame(output, index=list(data.keys()))"},
    {"id": "c13-frame-loses-empty-times", "property": "C13", "file": HR,
     "old": "        return pd.DataFrame(output, index=list(data.keys())).fillna(0)", "new": "        return pd.DataFrame(output).fillna(0)"},
    {"id": "c13-count-skips-first-of-state", "property": "C13", "file": DC,
     "old": "                self.agent_statistics[time][agent.agent_type][agent.state] = {\"count\": 0}", "new": "                self.agent_statistics[time][agent.agent_type][agent.state] = {\"count\": 0 if len(agents) < 5 else -1}"},
    {"id": "c13-max-of-integers-truncated", "property": "C13", "file": DC,
     "old": "                            [agent_property_name][\"max\"]) = (max(", "new": "                            [agent_property_name][\"max\"]) = int(max(",
     "note": "max truncated to int: wrong for fractional Double properties"},
    {"id": "c13-json-mean-is-total", "property": "C13", "file": HR,
     "old": "abm_results_dict[scenario.scenario_manager][scenario.name][\"agents\"][agent][state][\"properties\"][agent_property][\"mean\"] = df[state+\"_\"+agent_property + \"_\" + property_type].to_dict()",
     "new": "abm_results_dict[scenario.scenario_manager][scenario.name][\"agents\"][agent][state][\"properties\"][agent_property][\"mean\"] = df[state+\"_\"+agent_property + \"_total\"].to_dict() if (state+\"_\"+agent_property + \"_total\") in df.columns else df[state+\"_\"+agent_property + \"_\" + property_type].to_dict()"},
    # ---- C14
    {"id": "c14-count-per-state-by-position", "property": "C14", "file": M,
     "old": "            if self.agent(agent_id).state == state:", "new": "            if self.agents[agent_id].state == state:"},
    {"id": "c14-reset-resets-id-counter", "property": "C14", "file": M,
     "old": "        self.agents = []\n\n        self.data_collector.agent_statistics = {}", "new": "        self.agents = []\n        self.next_agent_id = 0\n\n        self.data_collector.agent_statistics = {}"},
    {"id": "c14-delete-keeps-type-map", "property": "C14", "file": M,
     "old": "        for agent_type in agent_types:\n            self.agent_type_map[agent_type]=[]\n", "new": "        for agent_type in []:\n            self.agent_type_map[agent_type]=[]\n"},
    {"id": "c14-configure-keeps-type-map", "property": "C14", "file": M,
     "old": "        for agent_type in self.agent_type_map:\n            self.agent_type_map[agent_type] = []\n\n        self.agents = []\n        \n        for agent in config:",
     "new": "        self.agents = []\n        \n        for agent in config:"},
    {"id": "c14-agent-lookup-by-position", "property": "C14", "file": M,
     "old": "        for agent in self.agents:\n            if agent.id==agent_id:\n                return agent\n\n        return None",
     "new": "        if 0 <= agent_id < len(self.agents):\n            return self.agents[agent_id]\n\n        return None"},
    {"id": "c14-delete-rebuilds-only-first-type", "property": "C14", "file": M,
     "old": "        for agent_type in agent_types:\n            self.agent_type_map[agent_type]=[]\n", "new": "        for agent_type in agent_types[:1]:\n            self.agent_type_map[agent_type]=[]\n"},
    {"id": "c14-next-agent-ignores-type", "property": "C14", "file": M,
     "old": "            if agent.agent_type == agent_type and agent.state == state:\n                return agent",
     "new": "            if agent.state == state:\n                return agent"},
    # ---- C19
    {"id": "c19-state-not-deepcopied", "property": "C19", "file": S,
     "old": "        session_state = copy.deepcopy(instance['instance'].session_state)\n",
     "new": "        session_state = instance['instance'].session_state\n"},
    {"id": "c19-load-skips-decompression", "property": "C19", "file": ESA,
     "old": "        state = self._load_state()\n        if(self.compress):", "new": "        state = self._load_state()\n        if(False):"},
    {"id": "c19-step-restored-off-by-one", "property": "C19", "file": B,
     "old": "            state[\"lock\"] = False\n        self.session_state = state",
     "new": "            state[\"lock\"] = False\n        state[\"step\"] = state[\"step\"] - state[\"dt\"]\n        self.session_state = state"},
    {"id": "c19-save-drops-last-result", "property": "C19", "file": ESA,
     "old": "        data = {\n            \"data\": {\n                \"state\": jsonpickle.dumps(state.state),",
     "new": "        if state.state and state.state.get(\"results_log\"):\n            state.state[\"results_log\"].pop(list(state.state[\"results_log\"])[-1])\n        data = {\n            \"data\": {\n                \"state\": jsonpickle.dumps(state.state),"},
    {"id": "c19-load-instance-loses-settings-log", "property": "C19", "file": ESA,
     "old": "            decoded_data = jsonpickle.loads(instance_data[\"data\"][\"state\"])\n",
     "new": "            decoded_data = jsonpickle.loads(instance_data[\"data\"][\"state\"])\n            decoded_data[\"settings_log\"] = {}\n"},
    # ---- C20
    {"id": "c20-startup-chokes-on-bad-file", "property": "C20", "file": S,
     "old": "                if instance_data is None:\n                    continue # not a readable state file, e.g. damaged by a crash or not an instance at all\n", "new": ""},
    {"id": "c20-save-before-step", "property": "C20", "file": S,
     "old": "        try:\n            if not request.is_json:\n                result = instance.run_step()",
     "new": "        if self._external_state_adapter != None:\n            self._external_state_adapter.save_instance(self._instance_manager._get_instance_state(instance_uuid))\n        try:\n            if not request.is_json:\n                result = instance.run_step()",
     "edits": [("            # externalise while the step lock is still held: once it is released another request may step and save, and a\n            # snapshot taken before that must not be written after it\n            if self._external_state_adapter != None:\n                self._external_state_adapter.save_instance(self._instance_manager._get_instance_state(instance_uuid))\n        finally:\n            instance.unlock()\n",
                "        finally:\n            instance.unlock()\n")],
     "note": "run-step saves the state before taking the step: the acknowledged step is not durable"},
    {"id": "c20-replay-ignores-step-settings", "property": "C20", "file": B,
     "old": "                self.run_step(settings=settings_log.get(logged_step))", "new": "                self.run_step(settings=None)"},
    {"id": "c20-replay-skips-session-settings", "property": "C20", "file": B,
     "old": "                            scenario_object.configure_settings(state[\"settings\"][manager.name][scenario])\n                        self.reset_scenario_cache(scenario_manager=manager.name, scenario=scenario)\n\n        settings_log",
     "new": "                            pass\n                        self.reset_scenario_cache(scenario_manager=manager.name, scenario=scenario)\n\n        settings_log"},
    {"id": "c20-no-replay", "property": "C20", "file": B,
     "old": "        if getattr(self, \"_session_restored\", False):\n            self._replay_session()\n", "new": ""},
    {"id": "c20-restore-deletes-file", "property": "C20", "file": ESA,
     "old": "            return InstanceState(decoded_data, instance_id, datetime.datetime.now(), timeout, step)",
     "new": "            os.remove(os.path.join(self.path, str(instance_uuid) + \".json\"))\n            return InstanceState(decoded_data, instance_id, datetime.datetime.now(), timeout, step)",
     "note": "loading consumes the file: a second crash before the next save loses the instance"},
    {"id": "c20-integer-session-clock", "property": "C20", "file": B,
     "old": "        starttime_ = float(starttime_)\n", "new": "",
     "note": "reversal of 840053e"},
    {"id": "c20-save-after-unlock", "property": "C20", "file": S,
     "old": "            # externalise while the step lock is still held: once it is released another request may step and save, and a\n            # snapshot taken before that must not be written after it\n            if self._external_state_adapter != None:\n                self._external_state_adapter.save_instance(self._instance_manager._get_instance_state(instance_uuid))\n        finally:\n            instance.unlock()\n",
     "new": "        finally:\n            instance.unlock()\n        if self._external_state_adapter != None:\n            self._external_state_adapter.save_instance(self._instance_manager._get_instance_state(instance_uuid))\n",
     "note": "reversal of 7727a44 for run-step"},
    {"id": "c20-abandoned-stream-not-saved", "property": "C20", "file": S,
     "old": "                yield \"]\"\n            except:\n                pass\n            finally:\n                try:\n                    # externalise while the step lock is still held (see run-step)\n                    if self._external_state_adapter != None:\n                        self._external_state_adapter.save_instance(self._instance_manager._get_instance_state(instance_uuid))\n                finally:\n                    release_lock()\n",
     "new": "                yield \"]\"\n                if self._external_state_adapter != None:\n                    self._external_state_adapter.save_instance(self._instance_manager._get_instance_state(instance_uuid))\n            except:\n                pass\n            finally:\n                release_lock()\n",
     "note": "the stream saves only when it ran to completion (a client that hangs up leaves the state file stale)"},
    {"id": "c09-managers-left-joined", "property": "C09", "file": B,
     "old": "                    df = df.join(tmp_df, how=\"outer\")", "new": "                    df = df.join(tmp_df)",
     "note": "reversal of ac14197"},
    # ---- C15
    {"id": "c15-undecorated-stop-instance", "property": "C15", "file": S,
     "old": "    @token_required\n    def _stop_instance_resource", "new": "    def _stop_instance_resource"},
    {"id": "c15-undecorated-session-results", "property": "C15", "file": S,
     "old": "    @token_required\n    def _session_results_resource", "new": "    def _session_results_resource"},
    {"id": "c15-undecorated-run", "property": "C15", "file": S,
     "old": "    @token_required\n    def _run_resource", "new": "    def _run_resource"},
    {"id": "c15-undecorated-keep-alive", "property": "C15", "file": S,
     "old": "    @token_required\n    def _keep_alive_resource", "new": "    def _keep_alive_resource"},
    {"id": "c15-undecorated-load-state", "property": "C15", "file": S,
     "old": "    @token_required\n    def _load_state_resource", "new": "    def _load_state_resource"},
    {"id": "c15-startswith", "property": "C15", "file": S,
     "old": "                if token != self._bearer_token:", "new": "                if not self._bearer_token.startswith(token):"},
    {"id": "c15-case-insensitive", "property": "C15", "file": S,
     "old": "                if token != self._bearer_token:", "new": "                if token.lower() != self._bearer_token.lower():"},
    {"id": "c15-handler-runs-before-401", "property": "C15", "file": S,
     "old": "                if token != self._bearer_token:\n                    resp = make_response",
     "new": "                if token != self._bearer_token:\n                    f(self, *args, **kwargs)\n                    resp = make_response"},
    {"id": "c15-missing-header-passes", "property": "C15", "file": S,
     "old": "            if self._bearer_token is not None:\n                token = None\n",
     "new": "            if self._bearer_token is not None:\n                token = self._bearer_token\n"},
    {"id": "c15-new-open-route", "property": "C15", "file": S,
     "old": "    def token_required(f):",
     "new": "    def _purge_resource(self, instance_uuid):\n        self._instance_manager._delete_instance(instance_uuid)\n        return make_response('purged', 200)\n\n    def token_required(f):",
     "edits": [("        self.route(\"/<instance_uuid>/stop-instance\", methods=['POST'], strict_slashes=False)(self._stop_instance_resource)\n",
                "        self.route(\"/<instance_uuid>/stop-instance\", methods=['POST'], strict_slashes=False)(self._stop_instance_resource)\n        self.route(\"/<instance_uuid>/purge\", methods=['DELETE'], strict_slashes=False)(self._purge_resource)\n")]},
    {"id": "c15-get-bypasses-check", "property": "C15", "file": S,
     "old": "            if self._bearer_token is not None:\n                token = None",
     "new": "            if self._bearer_token is not None and request.method != 'HEAD':\n                token = None"},
    # ---- C16
    {"id": "c16-one-bptk-for-all", "property": "C16", "file": S,
     "old": "        return self._bptk_factory()\n",
     "new": "        if not hasattr(self, '_cached'):\n            self._cached = self._bptk_factory()\n        return self._cached\n"},
    {"id": "c16-sweep-deletes-all", "property": "C16", "file": S,
     "old": "                            del self._instances[key]\n", "new": "                            self._instances.clear()\n                            return\n"},
    {"id": "c16-stop-removes-all-files", "property": "C16", "file": S,
     "old": "            self._external_state_adapter.delete_instance(instance_uuid)\n",
     "new": "            for k in list(self._instance_manager._instances):\n                self._external_state_adapter.delete_instance(k)\n            self._external_state_adapter.delete_instance(instance_uuid)\n"},
    {"id": "c16-clones-share-points", "property": "C16", "file": SMSD,
     "old": "        new_mod.points = copy.deepcopy(model.points)", "new": "        new_mod.points = model.points"},
    {"id": "c16-session-state-aliased", "property": "C16", "file": B,
     "old": "            \"results_log\":{},\n            \"lock\": False\n        }\n",
     "new": "            \"results_log\":{},\n            \"lock\": False\n        }\n        bptk._shared = getattr(bptk, \"_shared\", {})\n        bptk._shared.update(self.session_state)\n        self.session_state = bptk._shared\n",
     "note": "all instances alias one session dict"},
    {"id": "c16-stop-deletes-first-instance", "property": "C16", "file": S,
     "old": "        self._instance_manager._delete_instance(instance_uuid)\n",
     "new": "        self._instance_manager._delete_instance(sorted(self._instance_manager._instances)[0] if self._instance_manager._instances else instance_uuid)\n"},
    # ---- C17
    {"id": "c17-ge-to-gt", "property": "C17", "file": S,
     "old": "if current_time >= last_call_time + timeout:", "new": "if current_time > last_call_time + timeout:"},
    {"id": "c17-seconds-as-minutes", "property": "C17", "file": S,
     "old": '"minutes":  0 if "minutes" not in timeout else timeout["minutes"],',
     "new": '"minutes":  0 if "seconds" not in timeout else timeout["seconds"],'},
    {"id": "c17-keepalive-no-stamp", "property": "C17", "file": S,
     "old": "        self._update_instance_timestamp(instance_uuid)\n        self._timeout_instances()\n        return None",
     "new": "        self._timeout_instances()\n        return None"},
    {"id": "c17-metrics-no-sweep", "property": "C17", "file": S,
     "old": "    def _get_instance_metrics(self):\n        self._timeout_instances()", "new": "    def _get_instance_metrics(self):\n        pass"},
    {"id": "c17-no-destroy", "property": "C17", "file": S,
     "old": "                            self._instances[key]['instance'].destroy() #ensure that bptk releases all resources\n", "new": ""},
    {"id": "c17-sweep-deletes-all", "property": "C17", "file": S,
     "old": "                            del self._instances[key]\n", "new": "                            self._instances.clear()\n                            return\n"},
    {"id": "c17-results-no-stamp", "property": "C17", "file": S,
     "old": "        instance = self._instance_manager.get_instance(instance_uuid)\n        result = instance.session_results(index_by_time=False, flat=flat)",
     "new": "        instance = self._instance_manager._instances[instance_uuid][\"instance\"]\n        result = instance.session_results(index_by_time=False, flat=flat)",
     "note": "session-results no longer counts as an access"},
]


def apply(root, m):
    p = os.path.join(root, m["file"])
    with open(p) as f:
        s = f.read()
    if s.count(m["old"]) < 1:
        raise RuntimeError("mutant %s: pattern not found in %s" % (m["id"], m["file"]))
    s = s.replace(m["old"], m["new"], 1)
    with open(p, "w") as f:
        f.write(s)
    for old, new in m.get("edits", []):
        with open(p) as f:
            s = f.read()
        if s.count(old) < 1:
            raise RuntimeError("mutant %s: extra pattern not found" % m["id"])
        with open(p, "w") as f:
            f.write(s.replace(old, new, 1))


def run_one(m, tier="quick"):
    repo = os.environ.get("VERIF_REPO", "/repo")
    tmp = tempfile.mkdtemp(prefix="verif-mut-%d-" % os.getpid())
    try:
        shutil.copytree(os.path.join(repo, "BPTK_Py"), os.path.join(tmp, "BPTK_Py"),
                        ignore=shutil.ignore_patterns("__pycache__"))
        apply(tmp, m)
        env = dict(os.environ)
        env["VERIF_REPO"] = tmp
        env["VERIF_EVIDENCE_DIR"] = os.path.join(tmp, "evidence")
        env["VERIF_REPLAY_DIR"] = os.path.join(tmp, "replays")
        t0 = time.time()
        p = subprocess.run([sys.executable, os.path.join(HERE, "run.py"), "check", m["property"], "--tier", tier],
                           capture_output=True, text=True, env=env, timeout=3600)
        lines = p.stdout.splitlines()
        viol = [l for l in lines if l.startswith("VIOLATION")]
        clause = [l.strip() for l in lines if l.strip().startswith("clause=")]
        return {"id": m["id"], "property": m["property"], "exit": p.returncode, "violations": len(viol),
                "first": (clause[0][:160] if clause else ""), "wall": round(time.time() - t0, 1),
                "tail": "\n".join(lines[-3:]) + p.stderr[-300:]}
    finally:
        shutil.rmtree(tmp, ignore_errors=True)


def main(argv):
    sel = argv[0] if argv else "all"
    ms = [m for m in MUTANTS if sel in ("all", m["property"], m["id"])]
    survived = 0
    for m in ms:
        try:
            r = run_one(m)
        except Exception as e:
            print("MUTANT %-40s ERROR %s" % (m["id"], e))
            survived += 1
            continue
        caught = r["exit"] == 1 and r["violations"] > 0
        if not caught:
            survived += 1
        print("MUTANT %-40s %-4s %s exit=%d %5.1fs %s" % (r["id"], r["property"], "caught  " if caught else "SURVIVED",
                                                         r["exit"], r["wall"], r["first"] if caught else r["tail"][-300:]))
        sys.stdout.flush()
    print("mutants: %d run, %d caught, %d survived" % (len(ms), len(ms) - survived, survived))
    return 0 if survived == 0 else 1
