#!/bin/sh
# thorough tier of every claimed check, one after the other, each under its own budget (seconds, default 900)
B=${1:-900}
S=${2:-100}
for c in C06 C07 C08 C09 C11 C12 C13 C14 C15 C16 C17 C18 C19 C20; do
  VERIF_SEED=$S VERIF_BUDGET_S=$B VERIF_EVIDENCE_DIR=${VERIF_SOAK_DIR:-$PWD}/_soak_evidence VERIF_REPLAY_DIR=${VERIF_SOAK_DIR:-$PWD}/_soak_replays /venv/bin/python ./run.py check $c --tier thorough 2>&1 | grep -v "^KNOWN-FINDING" | tail -6
done
