"""server-world: the real BptkServer + InstanceManager + bptk + FileAdapter, run inside one
process under a virtual clock, a simulated file system, a deterministic id source and
(when asked) the baton scheduler.  Clients reach it through werkzeug's test client: a
synchronous in-process WSGI call with real routing, parsing, decorator and handlers.
"""
import json
import copy

from sim import patches
from sim.clock import VirtualClock
from sim.fs import SimFS
from sim.threads import Scheduler, SerialThread
from models import sd_templates as T

_configured = False


def configure_bptk_globals():
    """Harness configuration of BPTK itself (same effect as passing `configuration=` to
    bptk()): no log file, no file/model monitor threads, no matplotlib set-up."""
    global _configured
    if _configured:
        return
    import BPTK_Py  # noqa (must come first: config imports the package)
    import importlib
    c = importlib.import_module("BPTK_Py.config.config")
    c.configuration["log_modes"] = []
    c.configuration["set_scenario_monitor"] = False
    c.configuration["set_model_monitor"] = False
    c.configuration["interactive"] = False
    import BPTK_Py.logger.logger as logmod
    logmod.logmodes = []
    _configured = True


class Resp:
    __slots__ = ("status", "text", "body")

    def __init__(self, status, text):
        self.status = status
        self.text = text
        try:
            self.body = json.loads(text)
        except Exception:
            self.body = None

    @property
    def ok(self):
        return 200 <= self.status < 300

    def key(self):
        return [self.status, self.body if self.body is not None else self.text]


DEFAULT_MODEL = {
    "template": "T1", "start": 1.0, "stop": 20.0, "dt": 1.0,
    "managers": {"smA": {"base": {}, "alt": {"constants": {"constant": 2.0}}}},
}


class ServerWorld:
    """One simulated deployment.  `boot()` starts a server incarnation on the surviving
    simfs content, `crash()` discards it."""

    def __init__(self, cfg, log, result, sched_spec=None, trace=()):
        configure_bptk_globals()
        self.cfg = cfg
        self.log = log
        self.result = result
        self.model_cfg = cfg.get("model", DEFAULT_MODEL)
        self.token = cfg.get("token")
        self.adapter_mode = cfg.get("adapter")          # None | "plain" | "compressed"
        self.clock = VirtualClock(log=None, ticks=cfg.get("clock_ticks"))
        self.fs = SimFS(root="/state", log=log, list_order=cfg.get("list_order", "insertion"))
        self.uuid = patches.FakeUuid()
        self.app = None
        self.incarnation = 0
        self.serial = 0                 # bptk objects created so far (all incarnations)
        self.bptks = {}                 # serial -> SimBptk
        self.destroys = {}              # serial -> times destroy() was called
        self.step_events = []           # (seq, request tag, time before, time after)
        self.step_calls = {}            # request tag -> number of run_step calls so far
        self.raise_at = {}              # request tag -> call index at which run_step raises
        self.raise_where = {}           # request tag -> "before" (default: before the step starts) | "inside" (in the runner, mid-step)
        self._raise_inside = False
        self.req_of_task = {}           # task id -> request tag (scheduler runs)
        self.cur_req = None             # request tag (sequential runs)
        self.sched = None
        self._shared_model = None
        self.stream_aborts = []       # (tag, exception type) when the server raised mid-stream
        self.sched_spec = sched_spec
        self.trace = trace
        self._cm = None
        self.thread_mode = cfg.get("threads", "serial")

    # ------------------------------------------------------------ context
    def __enter__(self):
        self._cm = patches.installed(clock=self.clock, uuid=self.uuid, fs=self.fs,
                                     threads=self.thread_mode)
        self._cm.__enter__()
        # fault point inside a step: the SD runner raises when armed (off unless a case arms it)
        import BPTK_Py.scenariorunners.sd_runner as sdr
        world = self
        self._sdr = sdr
        self._orig_rss = sdr.SdRunner.run_scenario_step

        def rss(runner_self, *a, **k):
            if world._raise_inside:
                world._raise_inside = False
                raise RuntimeError("injected failure inside the step")
            return world._orig_rss(runner_self, *a, **k)
        sdr.SdRunner.run_scenario_step = rss
        if self.cfg.get("scenario_files"):
            import os
            import sys
            import importlib
            from checks.c07 import write_files
            mc = self.model_cfg
            mgr = sorted(mc["managers"])[0]
            wd = os.getcwd()
            _mod, self._files_written = write_files({"bases": [{"template": mc["template"], "start": mc["start"], "stop": mc["stop"], "dt": mc["dt"],
                                                                "constants": mc.get("constants"), "points": mc.get("points"), "initial": mc.get("initial")}],
                                                     "managers": [{"name": mgr, "scenarios": copy.deepcopy(mc["managers"][mgr])}]}, wd)
            if wd not in sys.path:
                sys.path.insert(0, wd)
            importlib.invalidate_caches()
            self.result.probe("scenarios_from_files")
        return self

    def __exit__(self, *a):
        try:
            self.crash()
        finally:
            self._sdr.SdRunner.run_scenario_step = self._orig_rss
            self._cm.__exit__(None, None, None)
            # nothing of a file-based world stays behind in the scratch directory (the next world's bptk() would read it)
            import os
            import shutil
            for path in getattr(self, "_files_written", []):
                try:
                    if os.path.isdir(path):
                        shutil.rmtree(path, ignore_errors=True)
                    elif os.path.exists(path):
                        os.remove(path)
                except OSError:
                    pass
            self._files_written = []
        return False

    # ------------------------------------------------------------ factory
    def _factory(self):
        import BPTK_Py
        world = self
        mc = self.model_cfg

        class SimBptk(BPTK_Py.bptk):
            def run_step(self, settings=None, flat=False):
                if getattr(self, "_verif_depth", 0) > 0 and world.cfg.get("replays_are_internal"):
                    # a step re-run from inside run_step (the lazy replay of a restored session): not a step of any request
                    world.log.add("replayed_step", world.current_req())
                    return super().run_step(settings=settings, flat=flat)
                self._verif_depth = getattr(self, "_verif_depth", 0) + 1
                try:
                    return self._verif_run_step(settings=settings, flat=flat)
                finally:
                    self._verif_depth -= 1

            def _verif_run_step(self, settings=None, flat=False):
                tag = world.current_req()
                n = world.step_calls.get(tag, 0)
                world.step_calls[tag] = n + 1
                before = self.session_state["step"] if self.session_state else None
                if world.raise_at.get(tag) == n:
                    world.result.fault("step_exception")
                    world.log.add("fault", "step_exception", tag, n, world.raise_where.get(tag, "before"))
                    if world.raise_where.get(tag, "before") == "inside":
                        world._raise_inside = True      # the runner fails in the middle of this step
                    else:
                        raise RuntimeError("injected step failure")
                try:
                    r = super().run_step(settings=settings, flat=flat)
                finally:
                    world._raise_inside = False
                after = self.session_state["step"] if self.session_state else None
                advanced = isinstance(r, dict) and "msg" not in r if r is not None else False
                seq = world.log.add("stepped", tag, before, after, bool(advanced))
                world.step_events.append((seq, tag, before, after, bool(advanced)))
                return r

            def destroy(self):
                world.destroys[self._sim_serial] = world.destroys.get(self._sim_serial, 0) + 1
                if world.cfg.get("destroy_cost_us") and world.destroys[self._sim_serial] == 1:
                    # releasing an instance takes (virtual) time, and other requests can be served meanwhile: a small part
                    # of the cost, a scheduling point, then the rest (charged once per instance)
                    from sim.threads import Scheduler
                    cost = world.cfg["destroy_cost_us"]
                    world.clock.advance(cost // 7)
                    if Scheduler.active is not None:
                        Scheduler.active.yield_now("slow_release")
                    world.clock.advance(cost - cost // 7)
                return super().destroy()

        def file_factory():
            # the scenarios come from ./scenarios/*.json of the run's scratch directory, the model class from a module next to it:
            # what `lambda: BPTK_Py.bptk()` gives a deployment that keeps its scenarios in files
            b = SimBptk()
            world.serial += 1
            b._sim_serial = world.serial
            world.bptks[b._sim_serial] = b
            return b

        if world.cfg.get("scenario_files"):
            return file_factory

        def factory():
            if world.cfg.get("shared_base"):
                # style (b): one module-level base model registered into every new bptk
                if world._shared_model is None:
                    world._shared_model = T.build(mc["template"], mc["start"], mc["stop"], mc["dt"],
                                                  constants=mc.get("constants"), points=mc.get("points"),
                                                  initial=mc.get("initial"))
                model = world._shared_model
            else:
                model = T.build(mc["template"], mc["start"], mc["stop"], mc["dt"],
                                constants=mc.get("constants"), points=mc.get("points"),
                                initial=mc.get("initial"))
            if mc.get("noise") and not world.cfg.get("shared_base"):
                # a stochastic element: a user function that hands out a fresh unique value per call (what sd.random() does,
                # deterministically): every value that was served once stays what it was
                def fresh_value(model_, t_):
                    world._noise_counter = getattr(world, "_noise_counter", 0) + 1
                    return 1000.0 + world._noise_counter
                nz = model.converter("noise")
                nz.equation = model.function("fresh_value", fresh_value)()
            b = SimBptk()
            world.serial += 1
            b._sim_serial = world.serial
            world.bptks[b._sim_serial] = b
            if world.cfg.get("factory_yield") and world.app is not None and Scheduler.active is not None:
                # building the bptk takes a while: whatever else is in flight is served meanwhile
                Scheduler.active.yield_now("slow_factory")
            if world.cfg.get("factory_cost_us") and world.app is not None:
                # building a bptk (loading and registering a large model) takes (virtual) time: the instance exists when that is done
                world.clock.advance(world.cfg["factory_cost_us"])
                world.result.probe("slow_bptk_factory")
            for mgr, scenarios in mc["managers"].items():
                b.register_scenario_manager({mgr: {"model": model}})
                b.register_scenarios(scenario_manager=mgr, scenarios=copy.deepcopy(scenarios))
            return b

        return factory

    # ------------------------------------------------------------ incarnations
    def boot(self, background=False):
        """background=True: this incarnation lives under a scheduler of its own.  Every thread the server starts by itself
        (a restore in the background, a timer ...) becomes a task that stays parked until the driver calls settle(): the
        driver decides whether background work happens before, between or after the requests.  A server that starts no
        threads behaves exactly as with background=False."""
        from BPTK_Py.server import BptkServer
        from BPTK_Py.externalstateadapter import FileAdapter
        adapter = None
        if self.adapter_mode:
            adapter = FileAdapter(self.adapter_mode == "compressed", self.fs.root)
        self.fs.crashed = False
        self.incarnation += 1
        self.log.add("boot", self.incarnation)
        self._bg_end()
        if background:
            import threading
            import BPTK_Py.sdsimulation.sd_simulation as sdsim
            from sim.threads import Scheduler, BackgroundLastPolicy, SimThread
            self._bg_seams = patches.Seams()
            self._bg_seams.set(threading, "Thread", SimThread)
            self._bg_seams.set(sdsim, "Thread", SimThread)
            self._bg = Scheduler(BackgroundLastPolicy(), (), log=None)
            self._bg.__enter__()
        self.app = BptkServer("verif_server", self._factory(), adapter, self.token)
        self.app.logger.disabled = True
        if self.cfg.get("app_context"):
            # the application is driven from inside an application context that stays pushed (a script, a shell, a test
            # fixture: `with app.app_context(): ...`): every request is served within it
            self._app_ctx = self.app.app_context()
            self._app_ctx.push()
            self.result.probe("requests_inside_a_pushed_app_context")
        if background:
            # whatever the constructor started is background work
            self._bg.policy.bg = {t.tid for t in self._bg.tasks if t.tid != 0}
            if self._bg.policy.bg:
                self.result.probe("server_started_background_threads")
        return self.app

    def settle(self):
        """let everything the server started in the background run to completion"""
        bg = getattr(self, "_bg", None)
        n = 0
        if bg is not None:
            while bg._others(bg.current) and n < 1000:
                bg.yield_now("settle")
                n += 1
        return n

    def _bg_end(self):
        bg = getattr(self, "_bg", None)
        if bg is not None:
            try:
                bg.__exit__(None, None, None)
            finally:
                self._bg = None
                self._bg_seams.restore()

    def crash(self):
        if self.app is not None:
            self.log.add("crash", self.incarnation)
        ctx = getattr(self, "_app_ctx", None)
        if ctx is not None:
            self._app_ctx = None
            try:
                ctx.pop()
            except Exception:
                pass
        self._bg_end()
        self.app = None

    # ------------------------------------------------------------ request plumbing
    def current_req(self):
        s = Scheduler.active
        if s is not None and s.current is not None:
            return self.req_of_task.get(s.current.tid, self.cur_req)
        return self.cur_req

    def headers(self, auth=True, extra=None):
        h = {}
        if auth and self.token is not None:
            h["Authorization"] = "Bearer " + str(self.token)
        if extra:
            h.update(extra)
        return h

    def request(self, method, path, body=None, tag=None, auth=True, headers=None, raw=None,
                content_type=None):
        """One synchronous request.  body: JSON-able or None (no body, no content type)."""
        prev = self.cur_req
        s = Scheduler.active
        if tag is not None:
            if s is not None and s.current is not None:
                self.req_of_task[s.current.tid] = tag
            else:
                self.cur_req = tag
        try:
            client = self.app.test_client()
            kw = {"headers": self.headers(auth, headers)}
            if raw is not None:
                kw["data"] = raw
                if content_type:
                    kw["content_type"] = content_type
            elif body is not None:
                kw["json"] = body
            r = client.open(path, method=method, **kw)
            text = r.get_data(as_text=True)
            return Resp(r.status_code, text)
        finally:
            self.cur_req = prev

    def get(self, path, **kw):
        return self.request("GET", path, **kw)

    def post(self, path, body=None, **kw):
        return self.request("POST", path, body=body, **kw)

    def stream(self, path, body=None, tag=None, chunks=None, auth=True):
        """POST a streaming request.  chunks=None: consume to the end.  chunks=m: read m
        chunks of the response iterable, then close it (the client goes away)."""
        prev = self.cur_req
        s = Scheduler.active
        if tag is not None:
            if s is not None and s.current is not None:
                self.req_of_task[s.current.tid] = tag
            else:
                self.cur_req = tag
        try:
            client = self.app.test_client()
            kw = {"headers": self.headers(auth)}
            if body is not None:
                kw["json"] = body
            r = client.open(path, method="POST", buffered=False, **kw)
            parts = []
            closed_early = False
            it = iter(r.response)
            try:
                if chunks is None:
                    for c in it:
                        parts.append(c if isinstance(c, str) else c.decode())
                else:
                    for _ in range(chunks):
                        try:
                            c = next(it)
                        except StopIteration:
                            break
                        parts.append(c if isinstance(c, str) else c.decode())
                    else:
                        closed_early = True
            except Exception as e:      # the server raised while streaming: the connection is cut
                self.log.add("stream_aborted", tag, type(e).__name__)
                self.stream_aborts.append((tag, type(e).__name__))
            finally:
                try:
                    r.close()
                except Exception as e:
                    self.log.add("stream_close_raised", tag, type(e).__name__)
                    self.stream_aborts.append((tag, type(e).__name__))
            resp = Resp(r.status_code, "".join(parts))
            return resp, closed_early, parts
        finally:
            self.cur_req = prev

    # ------------------------------------------------------------ observation (read-only)
    def instance_table(self):
        im = self.app._instance_manager
        return im._instances

    def bptk_of(self, inst_id):
        d = self.instance_table().get(inst_id)
        return d["instance"] if d else None

    def full_metrics(self):
        r = self.get("/full-metrics", auth=False)
        return r.body if r.body is not None else {}

    # ------------------------------------------------------------ deep state fingerprint
    def _bptk_fp(self, b):
        """repr-based (cheap): an untouched object graph has an identical repr; insertion
        order is part of it, which is fine for "a refused request changes nothing"."""
        fp = [repr(b.session_state), bool(b.is_locked()) if hasattr(b, "is_locked") else None,
              getattr(b, "_sim_serial", None)]
        for mname, mgr in b.scenario_manager_factory.scenario_managers.items():
            for sname, sc in mgr.scenarios.items():
                e = [mname, sname]
                for attr in ("constants", "points", "starttime", "stoptime", "dt"):
                    e.append(repr(getattr(sc, attr, None)))
                model = getattr(sc, "model", None)
                if model is not None:
                    e.append(repr(model.points))
                    e.append(repr(model.memo))
                    e.append((model.starttime, model.stoptime, model.dt))
                    vals = []
                    for cname in sorted(getattr(model, "constants", {})):
                        try:
                            vals.append((cname, model.equations[cname](model.starttime)))
                        except Exception as ex:
                            vals.append((cname, "exc:" + type(ex).__name__))
                    e.append(vals)
                e.append(getattr(sc, "sd_simulation", None) is not None)
                fp.append(e)
        return fp

    def fingerprint(self):
        """Everything a refused request must leave untouched, as a dict of hashes."""
        import hashlib

        def h(x):
            return hashlib.sha256(repr(x).encode()).hexdigest()
        parts = {}
        table = self.instance_table()
        parts["instance_table"] = h([(k, str(d["time"]), d["timeout"], getattr(d["instance"], "_sim_serial", None))
                                     for k, d in table.items()])
        for k, d in table.items():
            parts["instance:" + k] = h(self._bptk_fp(d["instance"]))
        if self.app._bptk is not None:
            parts["server_bptk"] = h(self._bptk_fp(self.app._bptk))
        parts["external_state"] = h(sorted(self.fs.files.items()))
        parts["objects"] = h([self.serial, self.uuid.n, sorted(self.destroys.items())])
        return parts
