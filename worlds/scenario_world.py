"""scenario-world: one real bptk with ScenarioManagerSd managers (several may be registered
from the SAME base Model object), cloned scenario models, SdRunner and SdSimulation; an
optional BptkServer around the same bptk gives the REST /run channel.

The world keeps a SHADOW of what each scenario has been told (constants, points, run specs,
through whichever channel); the oracle builds a fresh model from the shadow with the real DSL.
"""
import copy
import json

from models import sd_templates as T
from worlds.server_world import configure_bptk_globals


def _num(v):
    if isinstance(v, str):
        return float(eval(v))
    return float(v)


def _pts(v):
    if isinstance(v, str):
        v = eval(v)
    return [[float(a), float(b)] for a, b in v]


class ScenarioWorld:
    def __init__(self, cfg, log, res):
        configure_bptk_globals()
        self.cfg = cfg
        self.log = log
        self.res = res
        self.bptk = None
        self.bases = []          # real Model objects
        self.shadow = {}         # (mgr, scenario) -> dict
        self.mgr_base = {}       # mgr -> base index
        self.mgr_defaults = {}   # mgr -> (base_constants, base_points)
        self.app = None
        self.workdir = "."

    # ------------------------------------------------------------ setup
    def setup(self, bptk=None):
        import BPTK_Py
        for b in self.cfg["bases"]:
            self.bases.append(T.build(b["template"], b["start"], b["stop"], b["dt"], constants=b.get("constants"),
                                      points=b.get("points"), initial=b.get("initial"), name=b.get("name", "base")))
        self.bptk = bptk if bptk is not None else BPTK_Py.bptk()
        for m in self.cfg["managers"]:
            self.register_manager(m)
        return self.bptk

    def register_manager(self, m):
        d = {"model": self.bases[m["base"]]}
        if m.get("base_constants"):
            d["base_constants"] = copy.deepcopy(m["base_constants"])
        if m.get("base_points"):
            d["base_points"] = copy.deepcopy(m["base_points"])
        self.bptk.register_scenario_manager({m["name"]: d})
        self.mgr_base[m["name"]] = m["base"]
        self.mgr_defaults[m["name"]] = (copy.deepcopy(m.get("base_constants") or {}), copy.deepcopy(m.get("base_points") or {}))
        for sname, sdict in m.get("scenarios", {}).items():
            self.add_scenario(m["name"], sname, sdict)

    def add_scenario(self, mgr, sname, sdict):
        self.bptk.register_scenarios(scenarios={sname: copy.deepcopy(sdict)}, scenario_manager=mgr)
        b = self.cfg["bases"][self.mgr_base[mgr]]
        bc, bp = self.mgr_defaults[mgr]
        consts = dict(bc)
        consts.update(sdict.get("constants", {}))
        pts = dict(bp)
        pts.update(sdict.get("points", {}))
        rs = sdict.get("runspecs", {})
        self.shadow[(mgr, sname)] = {
            "template": b["template"], "base": self.mgr_base[mgr],
            "constants": consts, "points": pts,
            "start": rs.get("starttime", b["start"]), "stop": rs.get("stoptime", b["stop"]), "dt": rs.get("dt", b["dt"]),
            "tainted": set(),
        }

    # ------------------------------------------------------------ channels that change settings
    def apply_settings_shadow(self, settings, step_level=False):
        """settings: {mgr: {scenario: {"constants":..,"points":..,"runspecs":..}}}"""
        for mgr, scs in (settings or {}).items():
            for sname, s in scs.items():
                sh = self.shadow.get((mgr, sname))
                if sh is None:
                    continue
                if step_level:
                    for k in list(s.get("constants", {})) + list(s.get("points", {})):
                        sh["tainted"].add(k)
                    continue
                for k, v in s.get("constants", {}).items():
                    sh["constants"][k] = v
                    sh["tainted"].discard(k)
                for k, v in s.get("points", {}).items():
                    sh["points"][k] = v
                    sh["tainted"].discard(k)
                    if "poked" in sh:
                        sh["poked"].discard(k)      # (from now on the scenario declares this table itself)
                rs = s.get("runspecs", {})
                if "starttime" in rs:
                    sh["start"] = rs["starttime"]
                if "stoptime" in rs:
                    sh["stop"] = rs["stoptime"]
                if "dt" in rs:
                    sh["dt"] = rs["dt"]

    def server(self):
        if self.app is None:
            from BPTK_Py.server import BptkServer
            b = self.bptk
            self.app = BptkServer("verif_scenario_world", lambda: b)
            self.app.logger.disabled = True
        return self.app

    def rest_run(self, body):
        c = self.server().test_client()
        r = c.post("/run", json=body)
        try:
            return r.status_code, json.loads(r.get_data(as_text=True))
        except Exception:
            return r.status_code, None

    # ------------------------------------------------------------ oracle
    def fresh_for(self, key):
        sh = self.shadow[key]
        if sh["template"] == "T4":
            from models import xmile_t4
            c = sh["constants"].get("constant")
            p = sh["points"].get("factor")
            return xmile_t4.fresh_model(sh["start"], sh["stop"], sh["dt"], None if c is None else _num(c), None if p is None else _pts(p),
                                        workdir=self.workdir)
        b = self.cfg["bases"][sh["base"]]
        consts = dict(b.get("constants") or {})
        timed = {k: v for k, v in sh["constants"].items() if isinstance(v, str) and "t" in v}
        consts.update({k: (0.0 if k in timed else _num(v)) for k, v in sh["constants"].items()})
        pts = dict(b.get("points") or {})
        pts.update({k: _pts(v) for k, v in sh["points"].items()})
        fresh = T.build(sh["template"], sh["start"], sh["stop"], sh["dt"], constants=consts, points=pts, initial=b.get("initial"))
        for k, expr in timed.items():
            # a constant given as an expression of t ("0.5*t"): the element IS that function of time
            fresh.equations[k] = (lambda e: (lambda t: float(eval(e, {"t": t}))))(expr)
        return fresh

    def observe(self, key, fmt="df"):
        """run exactly one scenario through the public API and return {element: {t: v}}"""
        mgr, sname = key
        sh = self.shadow[key]
        eqs = T.ELEMENTS[sh["template"]]
        # every third observation asks for the scenario TOGETHER with a sibling (one call, one frame over the union of
        # the two time grids): its own column must carry exactly its own grid, whatever run specs the sibling has
        self.obs_count = getattr(self, "obs_count", 0) + 1
        sibs = [k for k in sorted(self.shadow) if k[0] == mgr and k != key and k not in getattr(self, "session", set())
                and self.shadow[k]["template"] == sh["template"]]
        if sibs and self.obs_count % 3 == 0:
            sib = sibs[(self.obs_count // 3) % len(sibs)]
            names = [sname, sib[1]] if (self.obs_count // 3) % 2 else [sib[1], sname]
            df = self.bptk.run_scenarios(scenarios=names, scenario_managers=[mgr], equations=list(eqs), series_names={}, return_format="df")
            if df is None:
                return None
            self.res.probe("observed_together_with_sibling")
            if [self.shadow[sib][x] for x in ("start", "stop", "dt")] != [sh[x] for x in ("start", "stop", "dt")]:
                self.res.probe("sibling_on_another_grid")
            own = set(T.label(t) for t in T.grid(sh["start"], sh["stop"], sh["dt"]))
            out = {}
            pre = "%s_%s_" % (mgr, sname)
            for c in df.columns:
                if not c.startswith(pre):
                    continue
                col = {}
                for t, v in df[c].to_dict().items():
                    t = float(t)
                    if t in own or v == v:      # outside its own grid the frame is padded with NaN; anything else is reported
                        col[t] = v
                out[c[len(pre):]] = col
            return out
        df = self.bptk.run_scenarios(scenarios=[sname], scenario_managers=[mgr], equations=list(eqs), series_names={}, return_format="df")
        if df is None:
            return None
        return {c: {float(t): v for t, v in df[c].to_dict().items()} for c in df.columns}

    def check_scenario(self, key, where):
        """own-results clause: scenario == fresh model with exactly its settings"""
        sh = self.shadow[key]
        got = self.observe(key)
        if got is None:
            self.res.violate("no-results", {"scenario": list(key), "where": where})
            return False
        fresh = self.fresh_for(key)
        grid = [T.label(t) for t in T.grid(sh["start"], sh["stop"], sh["dt"])]
        for el in T.ELEMENTS[sh["template"]]:
            if el not in got:
                self.res.violate("equation-missing", {"scenario": list(key), "element": el, "where": where})
                return False
            ts = sorted(got[el])
            if ts != grid:
                self.res.violate("grid-differs", {"scenario": list(key), "element": el, "where": where, "got": ts[:5] + ts[-2:],
                                                  "expected": grid[:5] + grid[-2:], "got_len": len(ts), "expected_len": len(grid),
                                                  "runspec": [sh["start"], sh["stop"], sh["dt"]]})
                return False
            for t in grid:
                fv = fresh.evaluate_equation(el, t) if hasattr(fresh, "evaluate_equation") else fresh.equation(el, t)
                if not T.close(got[el][t], fv, 1e-12):
                    self.res.violate("value-differs", {"scenario": list(key), "element": el, "t": t, "got": got[el][t], "fresh": fv,
                                                       "where": where, "settings": {"constants": sh["constants"], "points": sh["points"],
                                                                                    "runspec": [sh["start"], sh["stop"], sh["dt"]]}})
                    return False
        return True

    def check_base(self, j, where):
        b = self.cfg["bases"][j]
        fresh = T.build(b["template"], b["start"], b["stop"], b["dt"], constants=b.get("constants"), points=b.get("points"), initial=b.get("initial"))
        live = self.bases[j]
        if [live.starttime, live.stoptime, live.dt] != [fresh.starttime, fresh.stoptime, fresh.dt]:
            self.res.violate("base-runspec-changed", {"base": j, "got": [live.starttime, live.stoptime, live.dt], "where": where})
            return False
        for t in T.grid(b["start"], b["stop"], b["dt"]):
            t = T.label(t)
            for el in T.ELEMENTS[b["template"]]:
                lv = live.evaluate_equation(el, t)
                fv = fresh.evaluate_equation(el, t)
                if not T.close(lv, fv, 1e-12):
                    self.res.violate("base-model-changed", {"base": j, "element": el, "t": t, "got": lv, "fresh": fv, "where": where})
                    return False
        return True
