"""abm-world helpers shared by C12 and C13: scenario scripts, the expected call log, direct
and bptk-driven (threaded) execution of the real scheduler / runner."""
import copy
import random

from checks.c14 import shadow_new, shadow_apply

DTS = [1.0, 0.5, 0.25, 0.2, 0.1]
STATES = ["idle", "busy", "done"]


def gen_scenario(rng, allow_zero_stop=True, small=False, delayed=False):
    """one ABM scenario: run spec, initial population, hook operations, state/property scripts"""
    dt = rng.choice(DTS)
    start = rng.choice([0, 0, 1, 2, -3])
    rounds = rng.choice([0, 1, 2, 3]) if not small else rng.choice([1, 2])
    if not small and rng.random() < 0.03:
        dt = 1 / 93         # integer 1/dt whose float reciprocal is 92.99999999999999
        rounds = rng.choice([0, 1])
    stop = start + rounds
    if not allow_zero_stop and stop == 0:
        stop = 1
    spr = round(1 / dt)
    nsteps = (stop - start + 1) * spr
    init = [["a", rng.choice([0, 1, 2, 3, 4])], ["b", rng.choice([0, 0, 1, 2, 4])]]
    if rng.random() < 0.08:
        init = [["a", 0], ["b", 0]]
    next_id = sum(c for _, c in init)
    pop = []
    states = []
    props = []
    churn = rng.random() < 0.5
    for k in range(1, nsteps + 1):
        if churn and rng.random() < 0.2:
            where = rng.choice(["begin", "end"])
            r = rng.random()
            if r < 0.4 and next_id > 0:
                pop.append({"k": k, "where": where, "op": "delete", "id": rng.randrange(0, next_id)})
            elif r < 0.85:
                pop.append({"k": k, "where": where, "op": "create", "type": rng.choice(["a", "b"])})
                next_id += 1
            else:
                pop.append({"k": k, "where": where, "op": "set_state", "id": rng.randrange(0, max(1, next_id)), "state": rng.choice(STATES)})
        for i in range(next_id):
            if rng.random() < 0.12:
                states.append({"k": k, "id": i, "state": rng.choice(STATES)})
            if rng.random() < 0.15:
                props.append({"k": k, "id": i, "x": rng.choice([-2.5, -1.0, 0.0, 0.125, 3.75, 10.0]), "n": rng.choice([-4, -1, 0, 2, 7, 2.5, -0.75])})      # (an Integer-declared property may legally hold 2.5)
    # deletions from inside act: an agent removes itself or an agent created before it (both have
    # already acted in this step, so the rest of the step is unambiguous: everybody else still acts once)
    acts = []
    if churn and next_id > 1 and rng.random() < 0.5:
        for k in range(1, nsteps + 1):
            if rng.random() < 0.12:
                a = rng.randrange(0, next_id)
                acts.append({"k": k, "by": a, "op": "delete", "id": rng.choice([a, a, rng.randrange(0, a + 1)])})
            elif rng.random() < 0.06:
                # an agent creates another one while it acts: the newcomer is a live agent of this step
                # (it is appended to the population, so it handles and acts last in this very step)
                acts.append({"k": k, "by": rng.randrange(0, next_id), "op": "create", "type": rng.choice(["a", "b"])})
                next_id += 1
    sends = []
    if (delayed or rng.random() < 0.4) and next_id > 0:
        uid = 0
        for k in range(1, nsteps):
            if rng.random() < (0.7 if delayed else 0.4):
                uid += 1
                sends.append({"k": k, "from": rng.randrange(0, next_id), "uid": uid, "to": rng.randrange(0, next_id + 1),
                              "delay": rng.choice([None, round(dt * 2, 6), round(dt * 3, 6)] if delayed else [None, None, round(dt * 2, 6)]),
                              "name": "ping"})
                if rng.random() < 0.3:
                    # the same sender first sends the same agent something nobody has a handler for (uid ...999 marks it)
                    sends.insert(len(sends) - 1, {"k": k, "from": sends[-1]["from"], "uid": uid * 1000 + 999, "to": sends[-1]["to"], "delay": None, "name": "noise"})
    return {"start": start, "stop": stop, "dt": dt, "init": init, "pop": pop, "states": states, "props": props, "sends": sends, "acts": acts}


def load_script(world, sc, uid_offset=0):
    for p in sc["pop"]:
        op = {x: y for x, y in p.items() if x not in ("k", "where")}
        world.hook_ops.setdefault((p["k"], p["where"]), []).append(op)
    for s in sc["states"]:
        world.state_script[(s["k"], s["id"])] = s["state"]
    for p in sc["props"]:
        world.prop_script[(p["k"], p["id"])] = {"x": p["x"], "n": p["n"]}
    for a in sc.get("acts", ()):
        world.act_ops.setdefault((a["k"], a["by"]), []).append({x: y for x, y in a.items() if x not in ("k", "by")})
    for s in sc["sends"]:
        s = dict(s)
        s["uid"] = s["uid"] + uid_offset
        world.sends.setdefault((s["k"], s["from"]), []).append(s)


def expected_calls(sc, collect=True, mode="run", sh=None, k0=0, with_hooks=True, whole_run=True):
    """the call log the property prescribes, generated from the run spec and the population script.
    sh / k0: continue from an earlier run of the same model (population and step counter persist)."""
    if sh is None:
        sh = shadow_new()
        for t, c in sc["init"]:
            for _ in range(c):
                shadow_apply(sh, {"op": "create", "type": t})
    hooks = {}
    acts = {}
    if with_hooks:
        for p in sc["pop"]:
            hooks.setdefault((p["k"], p["where"]), []).append({x: y for x, y in p.items() if x not in ("k", "where")})
        for a in sc.get("acts", ()):
            acts.setdefault((a["k"], a["by"]), []).append({x: y for x, y in a.items() if x not in ("k", "by")})
    spr = round(1 / sc["dt"])
    out = []
    k = k0
    stopped = [False]

    def apply_(sh_, op, _apply=shadow_apply):
        if op["op"] == "stop_run":
            stopped[0] = True       # the run is cancelled: this step is completed, a whole run ends after it
        else:
            _apply(sh_, op)

    for r in range(sc["start"], sc["stop"] + 1):
        for s in range(spr):
            if stopped[0] and whole_run:
                break
            k += 1
            time = r + s * sc["dt"]
            out.append(("begin", time, r, s))
            for op in hooks.get((k, "begin"), ()):
                apply_(sh, op)
            done = set()
            while True:
                todo = [i for i in sh["live"] if i not in done]
                if not todo:
                    break
                i = todo[0]
                done.add(i)
                out.append(("handle", i, time))
                out.append(("act", i, time))
                for op in acts.get((k, i), ()):
                    apply_(sh, op)        # deletions only hit agents that have acted already; creations append
            out.append(("end", time, r, s))
            for op in hooks.get((k, "end"), ()):
                apply_(sh, op)
            last = (r == sc["stop"] and s == spr - 1)
            if collect or last:
                out.append(("collect", time))
    expected_calls.last_shadow = sh
    expected_calls.last_k = k
    return out


def build_direct(sc, collector=True):
    from models.abm_agents import make_model
    m = make_model(sc["start"], sc["stop"], sc["dt"], collector=collector)
    for t, c in sc["init"]:
        if c:
            m.create_agents({"name": t, "count": c})
    load_script(m.world, sc)
    return m


BASE_TBL = [[0.0, 1.0], [10.0, 1.0]]


def build_bptk(scenarios, class_path=False, lookups=None):
    """register the scenarios with a real bptk through ScenarioManagerHybrid (one deep copy of the
    base model per scenario) and load each scenario's script into its own world"""
    import BPTK_Py
    from worlds.server_world import configure_bptk_globals
    from models.abm_agents import make_model
    configure_bptk_globals()
    base = make_model(0, 1, 1.0, name="base")
    if lookups is not None:
        # a hybrid model: a graphical function of the model, which a scenario may replace through a Lookup-type property
        base.points["tbl"] = [list(x) for x in BASE_TBL]
    b = BPTK_Py.bptk()
    b._verif_base_model = base
    sdict = {}
    for n, sc in enumerate(scenarios):
        sdict["s%d" % n] = {"runspecs": {"starttime": sc["start"], "stoptime": sc["stop"], "dt": sc["dt"]},
                            "properties": {},
                            "agents": [{"name": t, "count": c} for t, c in sc["init"]]}
        if lookups is not None and lookups[n] is not None:
            sdict["s%d" % n]["properties"] = {"tbl": {"type": "Lookup", "value": [list(x) for x in lookups[n]]}}
    if class_path:
        # the manager names its model class in dot notation (the scenario-file / dictionary notation):
        # ScenarioManagerHybrid instantiates the class once per scenario instead of deep-copying a model object
        b.register_scenario_manager({"smAbm": {"type": "abm", "model": "models.abm_agents.ScriptModel", "scenarios": sdict}})
    else:
        b.register_scenario_manager({"smAbm": {"type": "abm", "model": base, "scenarios": sdict}})
    models = []
    for n, sc in enumerate(scenarios):
        m = b.get_scenario("smAbm", "s%d" % n)
        # configure() created the initial agents: forget what the factory logged so far
        m.world.calls = []
        m.world.k = 0
        load_script(m.world, sc, uid_offset=100000 * (n + 1))
        models.append(m)
    return b, models
