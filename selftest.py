"""Determinism and replay self-tests.

    run.py selftest determinism <ID|all> [N]

For the first N specs of the quick plan of a check:
  1. same process, executed twice            -> identical event-log digests
  2. executed from its recorded explicit schedule (replay of the sparse pre-emption list)
                                             -> identical digest (seeded policy == replay)
  3. fresh interpreters under PYTHONHASHSEED=1 and =7, with 1 and with 5 workers
                                             -> identical digests
Exit 0 = all identical, 2 = divergence (a harness error, never a verdict about the repo).
"""
import json
import os
import subprocess
import sys
import itertools

HERE = os.path.dirname(os.path.abspath(__file__))
ALL = ["C06", "C07", "C08", "C09", "C11", "C12", "C13", "C14", "C15", "C16", "C17", "C18", "C19", "C20"]


def _specs(check, n, seed=0):
    return list(itertools.islice(check.plan("quick", seed), n))


def digests_inprocess(check, n):
    from sim import runner
    runner._enter_scratch()
    if hasattr(check, "prepare"):
        check.prepare()
    out = []
    for spec in _specs(check, n):
        case = check.generate(spec)
        r = check.execute(case)
        out.append(r.digest)
    return out


def _dig_worker(args):
    pid, specs = args
    import importlib
    from sim import runner
    check = importlib.import_module("checks.%s" % pid.lower())
    runner._enter_scratch()
    return [check.execute(check.generate(s)).digest for s in specs]


def cmd_digests(pid, n):
    """print the digests of the first n quick specs (used by the cross-interpreter test)"""
    import importlib
    import multiprocessing
    import concurrent.futures as cf
    check = importlib.import_module("checks.%s" % pid.lower())
    import BPTK_Py  # noqa
    if hasattr(check, "prepare"):
        check.prepare()
    specs = _specs(check, n)
    w = int(os.environ.get("VERIF_WORKERS", "1"))
    if w <= 1:
        from sim import runner
        runner._enter_scratch()
        ds = [check.execute(check.generate(s)).digest for s in specs]
    else:
        parts = [specs[i::w] for i in range(w)]
        ctx = multiprocessing.get_context("fork")
        with cf.ProcessPoolExecutor(max_workers=w, mp_context=ctx) as ex:
            res = list(ex.map(_dig_worker, [(pid, p) for p in parts]))
        ds = [None] * len(specs)
        for k, part in enumerate(res):
            for j, d in enumerate(part):
                ds[k + j * w] = d
    print("DIGESTS " + json.dumps(ds))
    return 0


def determinism(pid, n):
    import importlib
    from sim import runner
    check = importlib.import_module("checks.%s" % pid.lower())
    import BPTK_Py  # noqa
    runner._enter_scratch()
    if hasattr(check, "prepare"):
        check.prepare()
    bad = 0
    specs = _specs(check, n)
    base = []
    replayed = 0
    for spec in specs:
        case = check.generate(spec)
        r1 = check.execute(case)
        r2 = check.execute(case)
        base.append(r1.digest)
        if r1.digest != r2.digest:
            bad += 1
            print("DIVERGENCE same-process twice: %s spec=%r" % (pid, spec))
        if r1.sched is not None and case.get("sched", {}).get("kind") not in (None, "replay", "default"):
            c3 = dict(case)
            c3["sched"] = r1.sched
            r3 = check.execute(c3)
            replayed += 1
            if r3.digest != r1.digest:
                bad += 1
                print("DIVERGENCE seeded-policy vs explicit replay: %s spec=%r" % (pid, spec))
    for hs, w in (("1", "1"), ("7", "5")):
        env = dict(os.environ)
        env["PYTHONHASHSEED"] = hs
        env["VERIF_WORKERS"] = w
        p = subprocess.run([sys.executable, os.path.join(HERE, "run.py"), "digests", pid, str(n)],
                           capture_output=True, text=True, env=env, timeout=3600)
        line = [l for l in p.stdout.splitlines() if l.startswith("DIGESTS ")]
        if not line:
            print("HARNESS-ERROR digests subprocess failed: %s" % (p.stdout[-500:] + p.stderr[-1500:]))
            return 2
        other = json.loads(line[0][8:])
        diff = [i for i, (a, b) in enumerate(zip(base, other)) if a != b]
        if diff or len(other) != len(base):
            bad += len(diff) or 1
            print("DIVERGENCE fresh interpreter PYTHONHASHSEED=%s workers=%s: %s at spec indexes %s" % (hs, w, pid, diff[:10]))
    print("selftest determinism %s: %d specs x (2 in-process + %d explicit replays + 2 fresh interpreters): %s" % (
        pid, len(specs), replayed, "identical" if not bad else "%d DIVERGENCES" % bad))
    return 0 if not bad else 2


def main(argv):
    if not argv:
        print(__doc__)
        return 2
    if argv[0] == "determinism":
        pids = ALL if argv[1] == "all" else [argv[1]]
        n = int(argv[2]) if len(argv) > 2 else 64
        rc = 0
        for pid in pids:
            if not os.path.exists(os.path.join(HERE, "checks", pid.lower() + ".py")):
                continue
            rc = max(rc, determinism(pid, n))
        return rc
    print(__doc__)
    return 2
