"""Baton-passing scheduler: real threads, but the simulator decides who runs.

Exactly one task holds the baton.  Tasks are real `threading.Thread`s that park on a
private semaphore; `sys.settrace` line events inside a chosen set of repository files are
the pre-emption points, `join` (and a SimLock acquire) are the blocking points.  At each
point a *policy* decides who continues; every non-default decision is recorded as
`[point_number, task_id]`, so that a run is reproduced exactly by replaying that sparse list.

Default decisions (what an empty list means): at a line point the running task continues;
at a blocking point the runnable task with the HIGHEST id runs (the most recently spawned
one: a request that waits for its own worker threads lets *them* run, not another client),
so that the empty list is a serial, depth-first execution.
"""
import sys
import threading

_RealThread = threading.Thread
_RealSemaphore = threading.Semaphore


class Deadlock(Exception):
    pass


class Task:
    __slots__ = ("tid", "name", "sem", "state", "waiting_on", "exc", "thread")

    def __init__(self, tid, name):
        self.tid = tid
        self.name = name
        self.sem = _RealSemaphore(0)
        self.state = "runnable"      # runnable | blocked | done
        self.waiting_on = None
        self.exc = None
        self.thread = None

    def __repr__(self):
        return "T%d(%s,%s)" % (self.tid, self.name, self.state)


# ------------------------------------------------------------------ policies

class DefaultPolicy:
    kind = "default"

    def at_line(self, k, cur, others):
        return None

    def at_block(self, k, runnable):
        return runnable[-1]


class BackgroundLastPolicy(DefaultPolicy):
    """serial; the tasks in `bg` (threads a server started by itself) run only when they are handed the baton explicitly
    (Scheduler.yield_now) or when nothing else can run"""
    kind = "background_last"

    def __init__(self):
        self.bg = set()

    def at_block(self, k, runnable):
        pref = [t for t in runnable if t.tid not in self.bg]
        return (pref or runnable)[-1]


class ReplayPolicy:
    kind = "replay"

    def __init__(self, preemptions):
        self.map = {}
        for k, tid in preemptions:
            self.map[int(k)] = int(tid)

    def at_line(self, k, cur, others):
        tid = self.map.get(k)
        if tid is None:
            return None
        for t in others:
            if t.tid == tid:
                return t
        return None

    def at_block(self, k, runnable):
        tid = self.map.get(k)
        if tid is not None:
            for t in runnable:
                if t.tid == tid:
                    return t
        return runnable[-1]


class RandomPolicy:
    kind = "random"

    def __init__(self, rng, p):
        self.rng = rng
        self.p = p

    def at_line(self, k, cur, others):
        if others and self.rng.random() < self.p:
            return others[self.rng.randrange(len(others))]
        return None

    def at_block(self, k, runnable):
        return runnable[self.rng.randrange(len(runnable))]


class PctPolicy:
    """Probabilistic concurrency testing: random priorities, d-1 priority change points."""
    kind = "pct"

    def __init__(self, rng, depth, est_len):
        self.rng = rng
        self.prio = {}
        self.low = 0.0
        n = max(1, int(est_len))
        self.change = set(rng.randrange(n) for _ in range(max(0, depth - 1)))

    def _p(self, t):
        if t.tid not in self.prio:
            self.prio[t.tid] = 1.0 + self.rng.random()
        return self.prio[t.tid]

    def at_line(self, k, cur, others):
        self._p(cur)
        for t in others:
            self._p(t)
        if k in self.change:
            self.low -= 1.0
            self.prio[cur.tid] = self.low
        if not others:
            return None
        best = max(others, key=lambda t: (self.prio[t.tid], -t.tid))
        if self.prio[best.tid] > self.prio[cur.tid]:
            return best
        return None

    def at_block(self, k, runnable):
        return max(runnable, key=lambda t: (self._p(t), -t.tid))


class OvertakePolicy:
    """One overtaking: serial (depth-first, highest task id first) until scheduling point k, where the running task is
    pre-empted in favour of task `to` and DEMOTED - from then on it only runs again when nothing else can.  The overtaker
    (and the worker threads it spawns) therefore runs to completion before the overtaken task continues: the schedule of
    "request B arrives and is served entirely while request A sits between two of its lines"."""
    kind = "overtake"

    def __init__(self, k=None, to=None, stages=None):
        # stages: [[k1, to1], [k2, to2], ...] - several overtakings in a row (the target of a later stage may be a task
        # that was demoted earlier: "A is overtaken by B, B is interrupted and A finishes, then C arrives while B is
        # still in progress")
        self.stages = [list(x) for x in (stages if stages is not None else [[k, to]])]
        self.next = 0
        self.demoted = []

    def at_line(self, k, cur, others):
        if self.next < len(self.stages) and k == self.stages[self.next][0]:
            to = self.stages[self.next][1]
            self.next += 1
            for t in others:
                if t.tid == to:
                    if cur.tid not in self.demoted:
                        self.demoted.append(cur.tid)
                    return t
        return None

    def at_block(self, k, runnable):
        pref = [t for t in runnable if t.tid not in self.demoted]
        return (pref or runnable)[-1]


def make_policy(spec, rng_factory=None):
    """spec: {"kind": "default"} | {"kind":"replay","preemptions":[[k,tid],..]} |
    {"kind":"random","seed":s,"p":p} | {"kind":"pct","seed":s,"depth":d,"est":n}"""
    import random
    kind = spec.get("kind", "default")
    if kind == "default":
        return DefaultPolicy()
    if kind == "replay":
        return ReplayPolicy(spec.get("preemptions", []))
    if kind == "overtake":
        return OvertakePolicy(spec.get("k"), spec.get("to"), spec.get("stages"))
    if kind == "random":
        return RandomPolicy(random.Random(spec["seed"]), spec.get("p", 0.05))
    if kind == "pct":
        return PctPolicy(random.Random(spec["seed"]), spec.get("depth", 2), spec.get("est", 200))
    raise ValueError("unknown schedule kind %r" % kind)


# ------------------------------------------------------------------ scheduler

class Scheduler:
    active = None   # at most one per process at a time

    def __init__(self, policy, trace_suffixes, log=None, critical_funcs=(), max_points=400000):
        self.policy = policy
        self.trace_suffixes = tuple(trace_suffixes)
        self.log = log
        self.critical_funcs = frozenset(critical_funcs)
        self.max_points = max_points
        self.tasks = []
        self.current = None
        self.points = 0
        self.taken = []             # [[k, tid]] non-default decisions
        self.switches = 0
        self.capped = False
        self.deadlocked = False
        self.crit = []              # (tid, funcname) sequence at critical function entries
        self._code_cache = {}
        self._driver = None
        self.thread_excs = []       # (task name, exception type name)
        self.atomic_tid = None      # a task that is inside an operation modelled as indivisible: no pre-emption points

    # -- lifecycle
    def __enter__(self):
        if Scheduler.active is not None:
            raise RuntimeError("nested Scheduler")
        Scheduler.active = self
        drv = Task(0, "driver")
        drv.thread = threading.current_thread()
        self.tasks.append(drv)
        self.current = drv
        self._driver = drv
        self._old_trace = sys.gettrace()
        sys.settrace(self._global_trace)
        return self

    def __exit__(self, *a):
        sys.settrace(self._old_trace)
        Scheduler.active = None
        return False

    # -- tracing
    def _traced(self, code):
        r = self._code_cache.get(code)
        if r is None:
            fn = code.co_filename
            r = False
            for s in self.trace_suffixes:
                if fn.endswith(s):
                    r = True
                    break
            self._code_cache[code] = r
        return r

    def _global_trace(self, frame, event, arg):
        if event == "call":
            code = frame.f_code
            if self._traced(code):
                if code.co_name in self.critical_funcs:
                    cur = self.current
                    self.crit.append((cur.tid if cur else -1, code.co_name))
                return self._local_trace
        return None

    def _local_trace(self, frame, event, arg):
        if event == "line":
            self.point(frame)
        return self._local_trace

    # -- scheduling points
    def _others(self, me):
        return [t for t in self.tasks if t.state == "runnable" and t is not me]

    def point(self, frame=None):
        me = self.current
        if me is None or me.thread is not threading.current_thread():
            return  # a thread the simulator does not own: never scheduled here
        if me.tid == self.atomic_tid:
            return  # inside an indivisible operation (not counted as a point either)
        k = self.points
        self.points += 1
        if k >= self.max_points:
            self.capped = True
            return
        others = self._others(me)
        if not others:
            # still let the policy see the point (keeps PRNG streams aligned with replays)
            self.policy.at_line(k, me, others)
            return
        nxt = self.policy.at_line(k, me, others)
        if nxt is None or nxt is me:
            return
        self.taken.append([k, nxt.tid])
        where = ""
        if frame is not None:
            fn = frame.f_code.co_filename
            where = "%s:%s" % (fn[fn.rfind("/") + 1:], frame.f_code.co_name)
        self._switch_log(me, nxt, where)
        self._handoff(me, nxt)

    def yield_now(self, where="yield"):
        """An explicit, unconditional hand-over placed by a world at a point where real code would be slow (I/O, a long
        release): another runnable task, if any, gets the baton; the caller stays runnable.  Deterministic (no policy
        draw), so it behaves the same under every policy and in replays."""
        me = self.current
        if me is None or me.thread is not threading.current_thread() or me.tid == self.atomic_tid:
            return
        others = self._others(me)
        if not others:
            return
        self.points += 1
        nxt = others[-1]
        self._switch_log(me, nxt, where)
        self._handoff(me, nxt)

    def _switch_log(self, a, b, where):
        self.switches += 1
        if self.log is not None:
            self.log.add("switch", a.tid, b.tid, where)

    def _handoff(self, me, nxt):
        self.current = nxt
        nxt.sem.release()
        me.sem.acquire()
        if self.deadlocked and me is self._driver:
            raise Deadlock("no runnable task")

    def _pick_at_block(self, me):
        runnable = [t for t in self.tasks if t.state == "runnable"]
        if not runnable:
            return None
        k = self.points
        self.points += 1
        nxt = self.policy.at_block(k, runnable)
        if nxt is not runnable[-1]:
            self.taken.append([k, nxt.tid])
        return nxt

    def _block(self, me, on):
        """me cannot continue until `on` changes; give the baton to somebody else."""
        me.state = "blocked"
        me.waiting_on = on
        nxt = self._pick_at_block(me)
        if nxt is None:
            # nobody can run: deadlock.  Only the driver can report it.
            self.deadlocked = True
            me.state = "runnable"
            if me is self._driver:
                raise Deadlock("no runnable task")
            drv = self._driver
            drv.state = "runnable"
            self._switch_log(me, drv, "deadlock")
            self._handoff(me, drv)
            return
        self._switch_log(me, nxt, "block")
        self._handoff(me, nxt)

    def _wake(self, on):
        for t in self.tasks:
            if t.state == "blocked" and t.waiting_on is on:
                t.state = "runnable"
                t.waiting_on = None

    # -- API used by SimThread
    def register(self, thread, name):
        t = Task(len(self.tasks), name)
        t.thread = thread
        self.tasks.append(t)
        if self.log is not None:
            self.log.add("spawn", t.tid, name)
        return t

    def join(self, target):
        me = self.current
        while target.state != "done":
            self._block(me, target)

    def finish(self, t):
        t.state = "done"
        self._wake(t)
        nxt = self._pick_at_block(t)
        if nxt is None:
            if any(x.state != "done" for x in self.tasks if x is not t):
                self.deadlocked = True
                drv = self._driver
                drv.state = "runnable"
                nxt = drv
            else:
                self.current = None
                return
        self._switch_log(t, nxt, "finish")
        self.current = nxt
        nxt.sem.release()

    def interleaving_hash(self):
        import hashlib
        return hashlib.sha256(repr(self.crit).encode()).hexdigest()[:16]


class SimThread(_RealThread):
    """Drop-in for threading.Thread.  Cooperative while a Scheduler is active, an ordinary
    thread otherwise (so a seam left installed by accident is harmless)."""

    _counter = 0

    def __init__(self, *args, **kwargs):
        super().__init__(*args, **kwargs)
        self._sim_task = None
        self._sim_sched = None

    def start(self):
        s = Scheduler.active
        if s is None:
            return super().start()
        self.daemon = True
        tgt = getattr(self, "_target", None)
        nm = getattr(tgt, "__name__", None) or "task"
        self._sim_sched = s
        self._sim_task = s.register(self, nm)
        super().start()

    def run(self):
        s = self._sim_sched
        if s is None:
            return super().run()
        t = self._sim_task
        t.sem.acquire()
        sys.settrace(s._global_trace)
        try:
            super().run()
        except BaseException as e:      # a real thread would print and die; we record
            t.exc = e
            s.thread_excs.append((t.name, type(e).__name__))
            if s.log is not None:
                s.log.add("thread_exc", t.tid, type(e).__name__)
        finally:
            sys.settrace(None)
            s.finish(t)

    def join(self, timeout=None):
        s = self._sim_sched
        if s is None or s is not Scheduler.active:
            return super().join(timeout)
        if timeout is not None and self._sim_task.state != "done":
            # a timed wait: the others get the processor for a while, then the wait is over whether or not the thread
            # has finished (virtual time is not modelled here; "the timeout elapsed" is always a legal outcome)
            s.yield_now("timed_join")
            if self._sim_task.state == "done":
                super().join(10.0)
            return
        s.join(self._sim_task)
        super().join(10.0)


def run_tasks(sched, fns):
    """Driver helper: run the callables as concurrent tasks and wait for all of them.
    Returns the list of results (or exceptions) in task order."""
    results = [None] * len(fns)

    def mk(i, f):
        def body():
            try:
                results[i] = ("ok", f())
            except BaseException as e:          # noqa
                results[i] = ("exc", e)
        body.__name__ = getattr(f, "__name__", "client%d" % i)
        return body

    ths = [SimThread(target=mk(i, f)) for i, f in enumerate(fns)]
    for th in ths:
        th.start()
    for th in ths:
        th.join()
    return results


class SerialThread:
    """Thread stand-in for sequential worlds: `start()` runs the target to completion on the
    calling thread.  One fixed, fully deterministic schedule (each worker runs alone, in
    start order); an exception ends the "thread" silently, as it would a real one."""

    excs = []   # (target name, exception type name) of the current run; cleared by the world

    def __init__(self, group=None, target=None, name=None, args=(), kwargs=None, daemon=None):
        self._target = target
        self._args = args
        self._kwargs = kwargs or {}
        self.name = name or "serial"
        self.daemon = daemon
        self.exc = None

    def start(self):
        try:
            if self._target is not None:
                self._target(*self._args, **self._kwargs)
        except BaseException as e:     # noqa
            self.exc = e
            SerialThread.excs.append((getattr(self._target, "__name__", "?"), type(e).__name__))

    def run(self):
        pass

    def join(self, timeout=None):
        return None

    def is_alive(self):
        return False


def AutoThread(*args, **kwargs):
    """Thread seam used by worlds that mix sequential phases and scheduled phases:
    a SimThread while a Scheduler is active, a SerialThread otherwise."""
    if Scheduler.active is not None:
        return SimThread(*args, **kwargs)
    return SerialThread(*args, **kwargs)
