"""Virtual wall clock (integer microseconds) and a stand-in for the `datetime` module.

The repository reads the clock as `datetime.datetime.now()` through the module-level name
`datetime`; rebinding that name to `fake_datetime_module(clock)` gives the simulator the
only clock the server ever sees.  `timedelta` stays the real class.
"""
import datetime as _dt
import types

EPOCH = _dt.datetime(2031, 3, 1, 12, 0, 0)


class VirtualClock:
    def __init__(self, log=None, ticks=None):
        self.now_us = 0
        self.reads = 0
        self.log = log
        # buggify knob: a real clock moves between two reads inside one request.  `ticks`
        # is a finite bit pattern (list of 0/1) applied cyclically: read i advances the
        # clock by ticks[i % len] microseconds *before* returning.
        self.ticks = list(ticks) if ticks else None
        self.ticked = 0

    def advance(self, us):
        assert us >= 0
        self.now_us += int(us)
        if self.log is not None:
            self.log.add("clock", self.now_us)

    def set(self, us):
        assert us >= self.now_us
        self.now_us = int(us)
        if self.log is not None:
            self.log.add("clock", self.now_us)

    def read(self):
        if self.ticks:
            d = self.ticks[self.reads % len(self.ticks)]
            if d:
                self.now_us += d
                self.ticked += d
        self.reads += 1
        return EPOCH + _dt.timedelta(microseconds=self.now_us)

    def peek(self):
        return EPOCH + _dt.timedelta(microseconds=self.now_us)


def fake_datetime_module(clock):
    class FakeDateTime(_dt.datetime):
        @classmethod
        def now(cls, tz=None):
            return clock.read()

        @classmethod
        def utcnow(cls):
            return clock.read()

    m = types.SimpleNamespace()
    m.datetime = FakeDateTime
    m.timedelta = _dt.timedelta
    m.date = _dt.date
    m.time = _dt.time
    m.timezone = _dt.timezone
    return m


UNIT_US = {
    "weeks": 7 * 24 * 3600 * 10**6,
    "days": 24 * 3600 * 10**6,
    "hours": 3600 * 10**6,
    "minutes": 60 * 10**6,
    "seconds": 10**6,
    "milliseconds": 1000,
    "microseconds": 1,
}


def timeout_us(timeout):
    return sum(UNIT_US[k] * int(v) for k, v in timeout.items())
