"""Install / remove the seams.  Every seam is a module-level name of the repository (or of
`threading`) that is rebound for the duration of one simulated run and restored afterwards.
With the context manager not entered nothing is changed (the shipped behaviour)."""
import contextlib
import types

_MISSING = object()


class Seams:
    def __init__(self):
        self._undo = []

    def set(self, module, attr, value):
        old = module.__dict__.get(attr, _MISSING)
        self._undo.append((module, attr, old))
        setattr(module, attr, value)

    def restore(self):
        while self._undo:
            module, attr, old = self._undo.pop()
            if old is _MISSING:
                try:
                    delattr(module, attr)
                except AttributeError:
                    pass
            else:
                setattr(module, attr, old)


class SimLock:
    """threading.Lock for the package under simulation.  Non-blocking acquires behave like the real thing.  A BLOCKING acquire
    of a lock that is held hands the baton to the other runnable tasks (they may release it); when nobody is left who could
    release it the simulator raises Deadlock instead of hanging - inside a request handler that surfaces as an error response."""

    def __init__(self):
        import _thread
        self._l = _thread.allocate_lock()

    def acquire(self, blocking=True, timeout=-1):
        if self._l.acquire(False):
            return True
        if not blocking:
            return False
        from .threads import Scheduler, Deadlock
        tries = 0
        while True:
            s = Scheduler.active
            if s is None or s.current is None or not s._others(s.current):
                if timeout is not None and timeout >= 0:
                    return False
                raise Deadlock("blocking acquire of a lock that nobody is left to release")
            s.yield_now("lock_wait")
            if self._l.acquire(False):
                return True
            tries += 1
            if tries > 500:
                if timeout is not None and timeout >= 0:
                    return False
                raise Deadlock("blocking acquire of a lock that is not released (500 hand-overs)")

    def release(self):
        self._l.release()

    def locked(self):
        return self._l.locked()

    def __enter__(self):
        self.acquire()
        return self

    def __exit__(self, *a):
        self.release()
        return False


def _lock_factory():
    import sys
    import _thread
    caller = sys._getframe(1).f_globals.get("__name__", "")
    return SimLock() if caller.startswith("BPTK_Py") else _thread.allocate_lock()


class FakeUuid:
    """uuid.uuid1().hex -> inst-0001, inst-0002 ... (creation ordinal, deterministic)"""

    def __init__(self, prefix="inst"):
        self.n = 0
        self.prefix = prefix

    def uuid1(self):
        self.n += 1
        return types.SimpleNamespace(hex="%s%04d" % (self.prefix, self.n))

    uuid4 = uuid1


def _pristine_mutable_defaults():
    """Process-global state hidden in mutable default arguments (bptk.run_scenarios(series_names={}) is MUTATED by the call, and
    the REST /run handler relies on the default): emptied at the start of every simulated run, so that the number of source
    lines a request executes - the scheduler's pre-emption points - does not depend on what the process did before."""
    import inspect
    import importlib
    mod = importlib.import_module("BPTK_Py.bptk")
    classes = [getattr(mod, "bptk", None)]
    # (the scenario managers' constructors have them too - filenames=[], scenarios={} ... -, and a manager created with the
    #  default `filenames` appends to it: the list of files a manager re-reads then depends on what the process did before)
    for modname, clsname in (("BPTK_Py.scenariomanager.scenario_manager_sd", "ScenarioManagerSd"),
                             ("BPTK_Py.scenariomanager.scenario_manager_hybrid", "ScenarioManagerHybrid"),
                             ("BPTK_Py.scenariomanager.scenario_manager", "ScenarioManager")):
        try:
            classes.append(getattr(importlib.import_module(modname), clsname, None))
        except Exception:
            pass
    for cls in classes:
        if cls is None:
            continue
        for f in vars(cls).values():
            if inspect.isfunction(f):
                for d in (f.__defaults__ or ()):
                    if isinstance(d, dict):
                        d.clear()
                    elif isinstance(d, list):
                        del d[:]


@contextlib.contextmanager
def installed(clock=None, uuid=None, fs=None, threads=None, quiet=True, global_thread=False):
    """threads: None (leave real threads), "sched" (SimThread under the baton scheduler),
    "serial" (SerialThread: workers run to completion at start())."""
    import BPTK_Py.server.bptkServer as srv
    import BPTK_Py.externalstateadapter.externalStateAdapter as esa
    import BPTK_Py.sdsimulation.sd_simulation as sdsim
    import threading
    from .clock import fake_datetime_module
    from .threads import SimThread, SerialThread, AutoThread
    import BPTK_Py.logger.logger as logmod

    s = Seams()
    _pristine_mutable_defaults()
    try:
        # locks created by the package while it is under simulation are simulated locks (see SimLock); everybody else's are real
        s.set(threading, "Lock", _lock_factory)
        if clock is not None:
            fdm = fake_datetime_module(clock)
            s.set(srv, "datetime", fdm)
            s.set(esa, "datetime", fdm)
            # the simulator owns EVERY wall clock of the package, not only the two modules that read one today: any
            # loaded BPTK_Py module that imported `datetime` (module or class) reads the virtual clock as well
            import sys
            import datetime as _real
            for name in sorted(sys.modules):
                mod = sys.modules[name]
                if mod is None or not name.startswith("BPTK_Py.") or mod is srv or mod is esa:
                    continue
                cur = mod.__dict__.get("datetime")
                if cur is _real:
                    s.set(mod, "datetime", fdm)
                elif cur is _real.datetime:
                    s.set(mod, "datetime", fdm.datetime)
        if uuid is not None:
            s.set(srv, "uuid", uuid)
        if fs is not None:
            s.set(esa, "open", fs.open)
            s.set(esa, "os", fs.os)
        if threads == "sched":
            s.set(sdsim, "Thread", SimThread)
            if global_thread:       # HybridRunner does `from threading import Thread` at call time
                s.set(threading, "Thread", SimThread)
        elif threads == "auto":
            SerialThread.excs = []
            s.set(sdsim, "Thread", AutoThread)
            if global_thread:
                s.set(threading, "Thread", AutoThread)
        elif threads == "serial":
            SerialThread.excs = []
            s.set(sdsim, "Thread", SerialThread)
            if global_thread:
                s.set(threading, "Thread", SerialThread)
        if quiet:
            silent = lambda *a, **k: None
            s.set(esa, "print", silent)
            s.set(logmod, "print", silent)
        yield s
    finally:
        s.restore()
