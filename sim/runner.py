"""Generic driver for all checks: seeded planning, sharding over forked workers, known-finding
classification with trigger-necessity test, minimisation, replay files, evidence.

A check module provides

    PROPERTY, LEVEL, RULE, REAL, STUB, ASSUMPTIONS, FAULT_KINDS (doc), SIM_UNIT
    plan(tier, verif_seed) -> iterator of JSON-able specs (quick: finite; thorough: may be endless)
    generate(spec) -> case (JSON-able dict; pure function of spec)
    execute(case) -> RunResult
    shrink(case) -> iterator of simpler candidate cases
    trigger(case, violation, finding) -> bool      (does the finding's trigger occur in this case?)
    neutralise(case, violation, finding) -> case or None   (same case with the trigger removed)

Exit codes: 0 all clauses held (known findings allowed, printed), 1 at least one VIOLATION,
2 harness error (never a verdict).
"""
import concurrent.futures as cf
import faulthandler
import json
import multiprocessing
import os
import shutil
import sys
import tempfile
import time
import traceback

from .core import RunResult, sha, canon, HarnessError

VERIF = os.path.dirname(os.path.dirname(os.path.abspath(__file__)))
FINDINGS_FILE = os.path.join(VERIF, "known_findings.json")
REPLAY_DIR = os.environ.get("VERIF_REPLAY_DIR") or os.path.join(VERIF, "replays")
EVIDENCE_DIR = os.environ.get("VERIF_EVIDENCE_DIR") or os.path.join(VERIF, "evidence")

_CHECK = None       # set in the parent before forking; inherited by workers
_FINDINGS = None
_SCRATCH = None


def load_findings(prop):
    try:
        with open(FINDINGS_FILE) as f:
            data = json.load(f)
    except FileNotFoundError:
        return []
    return [x for x in data.get("findings", []) if x.get("property") == prop]


def _enter_scratch():
    """bptk() reads ./scenarios/ and may write into the cwd: every process works in its own
    empty scratch directory, removed on exit."""
    global _SCRATCH
    if _SCRATCH is None or not os.path.isdir(_SCRATCH) or os.getpid() != _SCRATCH_PID[0]:
        base = os.environ.get("VERIF_SCRATCH", tempfile.gettempdir())
        _SCRATCH = tempfile.mkdtemp(prefix="verif-%d-" % os.getpid(), dir=base)
        _SCRATCH_PID[0] = os.getpid()
        import atexit
        atexit.register(shutil.rmtree, _SCRATCH, True)
    os.chdir(_SCRATCH)
    return _SCRATCH


_SCRATCH_PID = [None]


def safe_execute(check, case):
    """Execute one case; a Python exception escaping the harness is a harness error, not a
    verdict."""
    try:
        return check.execute(case), None
    except Exception:
        return None, traceback.format_exc()


def classify(check, case, res, findings):
    """Split the violations of one run into (known: {finding id: n}, unknown: [Violation]).
    A violation is attributed to a listed finding only if the finding's clause matches, its
    trigger occurs in the case AND the violation of that clause disappears when the trigger
    is neutralised (trigger-necessity test)."""
    known = {}
    unknown = []
    cache = {}
    for v in res.violations:
        matched = None
        for f in findings:
            if f.get("clause") != v.clause:
                continue
            try:
                if not check.trigger(case, v, f):
                    continue
            except Exception:
                continue
            fid = f["id"]
            if fid not in cache:
                c2 = check.neutralise(case, v, f)
                if c2 is None:
                    cache[fid] = None
                else:
                    r2, err = safe_execute(check, c2)
                    cache[fid] = r2.clauses() if r2 is not None else None
            cl = cache[fid]
            if cl is not None and v.clause not in cl:
                matched = fid
                break
        if matched:
            known[matched] = known.get(matched, 0) + 1
        else:
            unknown.append(v)
    return known, unknown


def _work(chunk):
    """Runs in a forked worker: generate + execute + classify each spec of the chunk."""
    check = _CHECK
    _enter_scratch()
    faulthandler.dump_traceback_later(float(os.environ.get("VERIF_WATCHDOG_S", "600")), exit=True)
    out = []
    try:
        for spec in chunk:
            t0 = time.perf_counter()
            case = check.generate(spec)
            res, err = safe_execute(check, case)
            if err is not None:
                out.append({"spec": spec, "harness_error": err, "case": case})
                continue
            rec = res.summary()
            rec["spec"] = spec
            rec["wall"] = time.perf_counter() - t0
            rec["case_id"] = sha(case)[:16]
            if res.violations:
                known, unknown = classify(check, case, res, _FINDINGS)
                rec["known"] = known
                rec["unknown"] = [v.to_json() for v in unknown]
                if unknown:
                    c = dict(case)
                    if res.sched is not None:
                        c["sched"] = res.sched
                    rec["case"] = c
            else:
                rec["known"] = {}
                rec["unknown"] = []
            rec.pop("violations", None)
            if spec.get("keep_sample"):
                rec["sample"] = case
            out.append(rec)
    finally:
        faulthandler.cancel_dump_traceback_later()
    return out


def _chunks(it, n):
    buf = []
    for x in it:
        buf.append(x)
        if len(buf) >= n:
            yield buf
            buf = []
    if buf:
        yield buf


# ------------------------------------------------------------------ minimisation

def minimise(check, case, clause, max_runs=250, max_wall=120.0, note=None):
    """Greedy delta debugging: accept a candidate whenever the *same clause* still fails."""
    t0 = time.time()
    runs = 0
    cur = case
    # make the schedule explicit first, so that shrinking does not depend on a PRNG stream
    res, err = safe_execute(check, cur)
    runs += 1
    if res is None or clause not in res.clauses():
        return cur, res, runs, False
    if res.sched is not None:
        c2 = dict(cur)
        c2["sched"] = res.sched
        r2, err = safe_execute(check, c2)
        runs += 1
        if r2 is not None and clause in r2.clauses():
            cur, res = c2, r2
    improved = True
    while improved and runs < max_runs and time.time() - t0 < max_wall:
        improved = False
        for cand in check.shrink(cur):
            if runs >= max_runs or time.time() - t0 > max_wall:
                break
            r, err = safe_execute(check, cand)
            runs += 1
            if r is not None and clause in r.clauses():
                if r.sched is not None and cand.get("sched", {}).get("kind") != "replay":
                    cand = dict(cand)
                    cand["sched"] = r.sched
                cur, res = cand, r
                improved = True
                break
    return cur, res, runs, True


def write_replay(check, case, res, clause, tag):
    os.makedirs(REPLAY_DIR, exist_ok=True)
    path = os.path.join(REPLAY_DIR, "%s-%s.json" % (check.PROPERTY, tag))
    v = [x for x in res.violations if x.clause == clause]
    doc = {
        "format": 1,
        "property": check.PROPERTY,
        "clause": clause,
        "case": case,
        "expect": {"digest": res.digest, "clauses": res.clauses(),
                   "detail": v[0].detail if v else None},
        "env": env_info(),
    }
    with open(path, "w") as f:
        json.dump(canon(doc), f, indent=1, sort_keys=True)
    return path


def env_info():
    import platform
    info = {"python": platform.python_version()}
    try:
        from importlib.metadata import version
        for p in ("flask", "werkzeug", "jsonpickle", "pandas", "numpy"):
            try:
                info[p] = version(p)
            except Exception:
                pass
    except Exception:
        pass
    try:
        import subprocess
        repo = os.environ.get("VERIF_REPO", "/repo")
        info["repo_head"] = subprocess.run(["git", "-C", repo, "rev-parse", "HEAD"], capture_output=True,
                                           text=True, timeout=10).stdout.strip()
    except Exception:
        pass
    return info


# ------------------------------------------------------------------ main entry

def run_check(check, tier, verif_seed, workers=None, budget_s=None, out=sys.stdout):
    global _CHECK, _FINDINGS
    t_start = time.time()
    _CHECK = check
    _FINDINGS = load_findings(check.PROPERTY)
    workers = workers or int(os.environ.get("VERIF_WORKERS", str(min(16, os.cpu_count() or 1))))
    if budget_s is None:
        budget_s = float(os.environ.get("VERIF_BUDGET_S", "600")) if tier == "thorough" else None
    print("VERIF_SEED=%d property=%s tier=%s workers=%d" % (verif_seed, check.PROPERTY, tier, workers), file=out)
    out.flush()
    _enter_scratch()
    if hasattr(check, "prepare"):
        check.prepare()

    agg = {
        "evaluations": 0, "digests": set(), "nontrivial_digests": set(), "faults": {}, "probes": {},
        "sim_units": 0, "points": 0, "interleavings": set(), "known": {}, "unknown": [],
        "harness_errors": [], "samples": [], "wall_exec": 0.0, "cases": set(),
    }

    def absorb(recs):
        for r in recs:
            if "harness_error" in r:
                agg["harness_errors"].append(r)
                continue
            if r.get("sub"):
                # one spec executed a batch of sub-cases (e.g. an enumerated block of histories)
                agg["evaluations"] += len(r["sub"])
                for dg, nt in r["sub"]:
                    agg["digests"].add(dg)
                    if nt:
                        agg["nontrivial_digests"].add(dg)
                agg["cases"].add(r["case_id"])
            else:
                agg["evaluations"] += 1
                agg["digests"].add(r["digest"])
                agg["cases"].add(r["case_id"])
                if r["nontrivial"]:
                    agg["nontrivial_digests"].add(r["digest"])
            for k, v in r["faults"].items():
                agg["faults"][k] = agg["faults"].get(k, 0) + v
            for k, v in r["probes"].items():
                agg["probes"][k] = agg["probes"].get(k, 0) + v
            agg["sim_units"] += r["sim_units"]
            agg["points"] += r["points"]
            if r["interleaving"]:
                agg["interleavings"].add(r["interleaving"])
            for k, v in r["known"].items():
                agg["known"][k] = agg["known"].get(k, 0) + v
            if r["unknown"]:
                agg["unknown"].append(r)
            if "sample" in r and len(agg["samples"]) < 3:
                agg["samples"].append(r["sample"])
            agg["wall_exec"] += r.get("wall", 0.0)

    plan = check.plan(tier, verif_seed)
    chunk_n = getattr(check, "CHUNK", 8)
    deadline = (t_start + budget_s) if budget_s else None
    max_unknown = 12
    if workers <= 1:
        for ch in _chunks(plan, chunk_n):
            absorb(_work(ch))
            if deadline and time.time() > deadline:
                break
            if len(agg["unknown"]) >= max_unknown or agg["harness_errors"]:
                break
    else:
        ctx = multiprocessing.get_context("fork")
        with cf.ProcessPoolExecutor(max_workers=workers, mp_context=ctx) as ex:
            pending = set()
            chunks = _chunks(plan, chunk_n)
            exhausted = False
            try:
                while True:
                    while not exhausted and len(pending) < workers * 3:
                        if deadline and time.time() > deadline:
                            exhausted = True
                            break
                        try:
                            ch = next(chunks)
                        except StopIteration:
                            exhausted = True
                            break
                        pending.add(ex.submit(_work, ch))
                    if not pending:
                        break
                    done, pending = cf.wait(pending, return_when=cf.FIRST_COMPLETED)
                    for fu in done:
                        if not fu.cancelled():
                            absorb(fu.result())
                    if len(agg["unknown"]) >= max_unknown or agg["harness_errors"]:
                        exhausted = True
                        for fu in pending:
                            fu.cancel()
            except cf.process.BrokenProcessPool as e:
                agg["harness_errors"].append({"harness_error": "worker died (watchdog or crash): %r" % (e,)})

    # ---- report
    exit_code = 0
    findings_by_id = {f["id"]: f for f in _FINDINGS}
    for fid in sorted(agg["known"]):
        f = findings_by_id[fid]
        print("KNOWN-FINDING: property=%s %s [%s, matched %d run(s)]" % (check.PROPERTY, f["what"], fid, agg["known"][fid]), file=out)
    for f in _FINDINGS:
        if f["id"] not in agg["known"]:
            print("INFO: listed finding %s was not met by this run" % f["id"], file=out)

    violations_reported = 0
    if agg["unknown"]:
        _enter_scratch()
        seen_clauses = {}
        for r in agg["unknown"]:
            for v in r["unknown"]:
                cl = v["clause"]
                if seen_clauses.get(cl, 0) >= 2:
                    continue
                seen_clauses[cl] = seen_clauses.get(cl, 0) + 1
                case = r["case"]
                mcase, mres, runs, ok = minimise(check, case, cl)
                if not ok or mres is None:
                    agg["harness_errors"].append({"harness_error": "violation of %s did not reproduce when re-executed in the parent (nondeterminism?) spec=%r" % (cl, r["spec"])})
                    continue
                # a minimised case must still be unknown (not explained by a listed finding)
                known, unknown = classify(check, mcase, mres, _FINDINGS)
                if not any(u.clause == cl for u in unknown):
                    # shrinking slid into a listed finding; report the unshrunk case instead
                    mcase = case
                    mres, err = safe_execute(check, mcase)
                    if mres is not None and mres.sched is not None:
                        mcase = dict(mcase)
                        mcase["sched"] = mres.sched
                tag = "%d-%s" % (verif_seed, sha([cl, mcase])[:10])
                path = write_replay(check, mcase, mres, cl, tag)
                det = [x for x in mres.violations if x.clause == cl]
                print("VIOLATION property=%s replay=%s" % (check.PROPERTY, path), file=out)
                print("  clause=%s detail=%s (minimised in %d runs)" % (cl, json.dumps(det[0].detail if det else v["detail"])[:600], runs), file=out)
                violations_reported += 1
                exit_code = 1

    for he in agg["harness_errors"][:3]:
        print("HARNESS-ERROR property=%s %s" % (check.PROPERTY, str(he.get("harness_error"))[-1500:]), file=out)
    if agg["harness_errors"] and exit_code == 0:
        exit_code = 2       # never exit 0 after a harness error; a minimised, reproduced violation keeps exit 1

    wall = time.time() - t_start
    zero_probes = [p for p in getattr(check, "PROBES", []) if agg["probes"].get(p, 0) == 0]
    for p in zero_probes:
        print("WARN: probe %s stayed at zero" % p, file=out)

    if exit_code != 2 and agg["evaluations"] > 0:
        write_evidence(check, tier, verif_seed, agg, wall, violations_reported, workers)
    print("property=%s tier=%s runs=%d distinct=%d nontrivial=%d known=%d violations=%d wall=%.1fs exit=%d" % (
        check.PROPERTY, tier, agg["evaluations"], len(agg["digests"]), len(agg["nontrivial_digests"]),
        sum(agg["known"].values()), violations_reported, wall, exit_code), file=out)
    return exit_code


def write_evidence(check, tier, verif_seed, agg, wall, violations, workers):
    os.makedirs(EVIDENCE_DIR, exist_ok=True)
    runs = agg["evaluations"]
    cov = {
        "evaluations": runs,
        "distinct_nontrivial": len(agg["nontrivial_digests"]),
        "rule": check.RULE,
        "samples": agg["samples"] or [{"note": "no sample kept"}],
        "distinct_event_logs": len(agg["digests"]),
        "distinct_cases": len(agg["cases"]),
        "runs_per_hour": int(runs / wall * 3600) if wall > 0 else 0,
        "workers": workers,
        "simulated_time": {"unit": getattr(check, "SIM_UNIT", "steps"), "total": agg["sim_units"]},
        "scheduling_points": agg["points"],
        "distinct_interleavings": len(agg["interleavings"]),
        "interleaving_measure": getattr(check, "INTERLEAVING_MEASURE", "n/a"),
        "faults_fired": dict(sorted(agg["faults"].items())),
        "fault_kinds_available": getattr(check, "FAULT_KINDS", []),
        "probes": dict(sorted(agg["probes"].items())),
        "real_components": check.REAL,
        "stub_components": check.STUB,
        "known_findings_matched": dict(sorted(agg["known"].items())),
        "exhaustive": bool(getattr(check, "EXHAUSTIVE", {}).get(tier, False)),
    }
    if hasattr(check, "evidence_extra"):
        cov.update(check.evidence_extra(tier))
    doc = {
        "property_id": check.PROPERTY,
        "tier": tier,
        "seed": int(verif_seed),
        "level": check.LEVEL,
        "coverage": canon(cov),
        "assumptions": check.ASSUMPTIONS,
        "wall_s": round(wall, 2),
        "violations": int(violations),
    }
    path = os.path.join(EVIDENCE_DIR, "%s.json" % check.PROPERTY)
    tmp = path + ".tmp"
    with open(tmp, "w") as f:
        json.dump(doc, f, indent=1, sort_keys=True)
    os.replace(tmp, path)
    return path


def replay(check, path, out=sys.stdout):
    """Re-execute a replay file.  exit 1 = violation reproduced with the same digest,
    exit 0 = the recorded clause no longer fails, exit 2 = reproduced but not bit-identical
    (harness nondeterminism) or harness error."""
    global _CHECK
    _CHECK = check
    with open(path) as f:
        doc = json.load(f)
    _enter_scratch()
    if hasattr(check, "prepare"):
        check.prepare()
    res, err = safe_execute(check, doc["case"])
    if res is None:
        print("HARNESS-ERROR replay failed: %s" % err, file=out)
        return 2
    clause = doc["clause"]
    if clause in res.clauses():
        v = [x for x in res.violations if x.clause == clause][0]
        same = res.digest == doc["expect"]["digest"]
        print("REPRODUCED property=%s clause=%s digest_match=%s" % (doc["property"], clause, same), file=out)
        print("  detail=%s" % json.dumps(v.detail)[:1200], file=out)
        if not same:
            print("HARNESS-ERROR replay digest differs from the recorded one (expected %s, got %s)" % (
                doc["expect"]["digest"], res.digest), file=out)
            return 2
        print("VIOLATION property=%s replay=%s" % (doc["property"], path), file=out)
        return 1
    print("NOT-REPRODUCED property=%s clause=%s (clauses now failing: %s)" % (doc["property"], clause, res.clauses()), file=out)
    return 0
