"""Core of the deterministic simulator: seed derivation, event log, run result.

Everything a run does that an oracle or a replay depends on is appended to one
EventLog; its SHA-256 is the run digest.  Nothing in here reads a real clock or
draws from a PRNG: logging never perturbs a schedule.
"""
import hashlib
import json
import math
import random


def derive_seed(*parts):
    """One integer decides a run: H(VERIF_SEED, property, index, ...) -> 63-bit int."""
    h = hashlib.sha256(repr(parts).encode("utf-8")).digest()
    return int.from_bytes(h[:8], "big") >> 1


def rng_for(*parts):
    return random.Random(derive_seed(*parts))


def canon(obj):
    """Canonical JSON-able form: dict keys as strings and sorted, floats repr'd so that
    1.0 and 1 stay distinguishable and nan/inf survive, tuples -> lists."""
    if isinstance(obj, dict):
        return {str(k): canon(v) for k, v in sorted(obj.items(), key=lambda kv: str(kv[0]))}
    if isinstance(obj, (list, tuple)):
        return [canon(v) for v in obj]
    if isinstance(obj, bool) or obj is None or isinstance(obj, (int, str)):
        return obj
    if isinstance(obj, float):
        if math.isnan(obj) or math.isinf(obj):
            return repr(obj)
        return obj
    try:
        import numpy as np
        if isinstance(obj, np.generic):
            return canon(obj.item())
    except Exception:
        pass
    return repr(obj)


def canon_json(obj):
    return json.dumps(canon(obj), sort_keys=True, separators=(",", ":"))


def sha(obj):
    return hashlib.sha256(canon_json(obj).encode("utf-8")).hexdigest()


class EventLog:
    """Append-only list of tuples (seq, kind, ...).  seq is the simulator's global event
    number; invoke/return stamps used by history oracles are these numbers."""

    def __init__(self):
        self.events = []

    def add(self, kind, *args):
        seq = len(self.events)
        self.events.append((seq, kind) + tuple(canon(a) for a in args))
        return seq

    @property
    def seq(self):
        return len(self.events)

    def digest(self):
        h = hashlib.sha256()
        for e in self.events:
            h.update(json.dumps(e, sort_keys=True, separators=(",", ":")).encode("utf-8"))
            h.update(b"\n")
        return h.hexdigest()

    def of_kind(self, kind):
        return [e for e in self.events if e[1] == kind]


class Violation:
    def __init__(self, clause, detail=None):
        self.clause = clause
        self.detail = canon(detail if detail is not None else {})

    def to_json(self):
        return {"clause": self.clause, "detail": self.detail}

    def __repr__(self):
        return "Violation(%s, %s)" % (self.clause, json.dumps(self.detail)[:300])


class RunResult:
    """What one simulated execution produced."""

    def __init__(self):
        self.violations = []        # [Violation]
        self.digest = None          # event-log digest
        self.faults = {}            # fault kind -> times it actually fired
        self.probes = {}            # rare-branch name -> times reached
        self.sim_units = 0          # simulated time in the property's own unit
        self.points = 0             # scheduling points passed
        self.interleaving = None    # hash of (task, critical line) sequence, if any
        self.nontrivial = False     # by the property's stated rule
        self.sched = None           # explicit schedule actually taken (sparse preemption list)
        self.extra = {}
        self.sub = None             # batched executions: [(digest, nontrivial)] (one entry per sub-case)

    def violate(self, clause, detail=None):
        self.violations.append(Violation(clause, detail))

    def fault(self, kind, n=1):
        self.faults[kind] = self.faults.get(kind, 0) + n

    def probe(self, name, n=1):
        self.probes[name] = self.probes.get(name, 0) + n

    def clauses(self):
        return sorted({v.clause for v in self.violations})

    def summary(self):
        return {
            "violations": [v.to_json() for v in self.violations],
            "digest": self.digest,
            "faults": self.faults,
            "probes": self.probes,
            "sim_units": self.sim_units,
            "points": self.points,
            "interleaving": self.interleaving,
            "nontrivial": self.nontrivial,
            "sub": self.sub,
        }


class HarnessError(Exception):
    """Something in the machinery (not in the system under test) went wrong."""
