"""Simulated file system under FileAdapter: durable content, crash and write faults.

`FileAdapter` reaches storage through the builtin `open` and the module `os`
(`os.path.join`, `os.listdir`, `os.remove`).  A module-global `open` shadows the builtin,
so both are seams that need no change in the repository.

Crash model.  A write fault means "the process died while (or just before/after) writing
this file".  Rather than unwinding the request with an exception (the handlers contain
bare `except:` clauses that would swallow it), the fault leaves the *durable* content as
the crash would have left it and sets `crashed`; from then on every further write and
remove is discarded.  The driver throws the response away (the client never saw it) and
discards the server incarnation.  Nothing durable can happen after the save in the same
request, so this is observationally the same as dying inside `write()`.
"""
import posixpath


class _Path:
    join = staticmethod(posixpath.join)
    basename = staticmethod(posixpath.basename)
    dirname = staticmethod(posixpath.dirname)
    splitext = staticmethod(posixpath.splitext)
    split = staticmethod(posixpath.split)
    normpath = staticmethod(posixpath.normpath)
    abspath = staticmethod(posixpath.normpath)
    isabs = staticmethod(posixpath.isabs)

    def getsize(self, p):
        if p not in self._fs.files:
            raise FileNotFoundError(2, "No such file: %r" % p)
        return len(self._fs.files[p])

    def __init__(self, fs):
        self._fs = fs

    def exists(self, p):
        return self._fs._exists(p)

    def isfile(self, p):
        return p in self._fs.files

    def isdir(self, p):
        return self._fs._isdir(p)


class _OsFacade:
    def __init__(self, fs):
        self._fs = fs
        self.path = _Path(fs)
        self.sep = "/"

    def listdir(self, p):
        return self._fs.listdir(p)

    def remove(self, p):
        return self._fs.remove(p)

    def makedirs(self, p, exist_ok=False):
        self._fs.dirs.add(p.rstrip("/"))

    def mkdir(self, p):
        self._fs.dirs.add(p.rstrip("/"))

    # a FileAdapter that writes to a scratch file and renames it into place is a legitimate (better) implementation:
    # the facade offers what such code needs, with POSIX semantics (rename is atomic; nothing durable happens once crashed)
    unlink = remove

    def replace(self, src, dst):
        return self._fs.rename(str(src), str(dst))

    rename = replace

    def getpid(self):
        return 4242

    def fsync(self, fd):
        return None

    def fspath(self, p):
        return str(p)

    def scandir(self, p):
        import types
        return [types.SimpleNamespace(name=n, path=posixpath.join(p, n), is_file=lambda: True, is_dir=lambda: False)
                for n in self._fs.listdir(p)]


class _WFile:
    def __init__(self, fs, path):
        self.fs = fs
        self.path = path
        self.buf = []
        self.closed = False

    def write(self, data):
        self.fs._write(self, data)
        return len(data)

    def flush(self):
        return None

    def fileno(self):
        return 3

    @property
    def name(self):
        return self.path

    def close(self):
        if not self.closed:
            self.closed = True
            self.fs._close(self)

    def __enter__(self):
        return self

    def __exit__(self, *a):
        self.close()
        return False


class _RFile:
    def __init__(self, data):
        self.data = data

    def read(self):
        return self.data

    def close(self):
        pass

    def __enter__(self):
        return self

    def __exit__(self, *a):
        return False


class SimFS:
    def __init__(self, root="/state", log=None, list_order="insertion"):
        self.root = root.rstrip("/")
        self.dirs = {self.root}
        self.files = {}          # path -> str, the DURABLE content
        self.log = log
        self.armed = None        # fault to apply to the next write-open: dict(kind=..., ...)
        self.crashed = False
        self.fired = {}          # fault kind -> count
        self.writes = 0          # completed durable writes
        self.removes = 0
        self.list_order = list_order
        self.os = _OsFacade(self)
        self._cur_fault = {}

    # ---- durable image helpers
    def snapshot(self):
        return dict(self.files)

    def restore(self, snap):
        self.files = dict(snap)
        self.crashed = False
        self.armed = None

    def clone(self):
        c = SimFS(self.root, None, self.list_order)
        c.files = dict(self.files)
        c.dirs = set(self.dirs)
        return c

    def _fire(self, kind, detail=None):
        self.fired[kind] = self.fired.get(kind, 0) + 1
        if self.log is not None:
            self.log.add("fault", kind, detail)

    # ---- file API
    def _exists(self, p):
        p = p.rstrip("/")
        return p in self.files or p in self.dirs

    def _isdir(self, p):
        return p.rstrip("/") in self.dirs

    def open(self, path, mode="r", *a, **kw):
        path = str(path)
        if "r" in mode and "+" not in mode:
            if path not in self.files:
                raise FileNotFoundError(2, "No such file or directory: %r" % path)
            return _RFile(self.files[path])
        if "w" in mode:
            f = _WFile(self, path)
            fault = self.armed
            self.armed = None
            self._cur_fault[id(f)] = fault
            if self.crashed:
                return f
            if fault is None:
                return f
            kind = fault["kind"]
            if kind == "crash_before_open":
                self.crashed = True
                self._fire(kind, path)
            elif kind == "eio_on_open":
                self._fire(kind, path)
                raise OSError(5, "Input/output error (injected)")
            return f
        raise ValueError("SimFS: unsupported mode %r" % mode)

    def _write(self, f, data):
        fault = self._cur_fault.get(id(f))
        if self.crashed:
            return
        if fault is not None and fault["kind"] == "eio_on_write":
            self._cur_fault[id(f)] = None
            self._fire("eio_on_write", f.path)
            # open('w') already truncated the file on a real system
            self.files[f.path] = ""
            raise OSError(5, "Input/output error (injected)")
        if fault is not None and fault["kind"] == "torn":
            whole = "".join(f.buf) + data
            n = fault_cut(whole, fault.get("cls", "half"), fault.get("n"))
            self.files[f.path] = whole[:n]
            self.crashed = True
            self._fire("torn:" + str(fault.get("cls", "n")), [f.path, n, len(whole)])
            return
        f.buf.append(data)

    def _close(self, f):
        fault = self._cur_fault.pop(id(f), None)
        if self.crashed:
            return
        if fault is not None and fault["kind"] == "lost_write":
            self.crashed = True
            self._fire("lost_write", f.path)
            return
        self.files[f.path] = "".join(f.buf)
        self.writes += 1

    def listdir(self, p):
        p = p.rstrip("/")
        if p not in self.dirs:
            raise FileNotFoundError(2, "No such directory: %r" % p)
        names = [k[len(p) + 1:] for k in self.files if k.startswith(p + "/") and "/" not in k[len(p) + 1:]]
        if self.list_order == "sorted":
            names.sort()
        elif self.list_order == "reversed":
            names.sort(reverse=True)
        return names

    def remove(self, path):
        if self.crashed:
            return
        if path not in self.files:
            raise FileNotFoundError(2, "No such file: %r" % path)
        del self.files[path]
        self.removes += 1

    def rename(self, src, dst):
        if self.crashed:
            return
        if src not in self.files:
            raise FileNotFoundError(2, "No such file: %r" % src)
        self.files[dst] = self.files.pop(src)
        self.writes += 1

    # ---- faults placed directly on the durable image (no process involved)
    def put_stray(self, name, content="not a state file\n"):
        self.files[self.root + "/" + name] = content
        self._fire("stray_file", name)

    def flip_byte(self, path, pos):
        s = self.files[path]
        pos = pos % max(1, len(s))
        c = s[pos]
        r = "#" if c != "#" else "%"
        self.files[path] = s[:pos] + r + s[pos + 1:]
        self._fire("flipped_byte", [path, pos])


TORN_CLASSES = ("zero", "one", "header", "inner", "last")


def fault_cut(whole, cls, n=None):
    """Truncation length for a torn write, by length class of the adapter's file format
    {"data": {"state": "<inner jsonpickle string>", "instance_id": ...}}"""
    L = len(whole)
    if n is not None:
        return max(0, min(L, int(n)))
    if cls == "zero":
        return 0
    if cls == "one":
        return min(1, L)
    if cls == "last":
        return max(0, L - 1)
    key = whole.find('"state"')
    if cls == "header":
        # inside the outer JSON header, before the inner string starts
        return max(2, (key if key > 0 else 10) + 3) if L > 12 else L // 2
    if cls == "inner":
        start = key + 12 if key >= 0 else L // 3
        return min(L - 2, start + (L - start) // 2)
    return L // 2
