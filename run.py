#!/venv/bin/python
"""Single entry point:  run.py check <ID> --tier quick|thorough
                        run.py replay <file>
                        run.py selftest [--quick]
Executed as a script (never with -m: that loads modules twice).  Re-executes itself with
PYTHONHASHSEED=0 so that set/dict iteration order is the same in every run."""
import os
import sys

HERE = os.path.dirname(os.path.abspath(__file__))


def _reexec():
    if os.environ.get("PYTHONHASHSEED") is None:
        env = dict(os.environ)
        env["PYTHONHASHSEED"] = "0"
        os.execve(sys.executable, [sys.executable] + sys.argv, env)


def _setup_path():
    repo = os.environ.get("VERIF_REPO", "/repo")
    for p in (HERE, repo):
        if p in sys.path:
            sys.path.remove(p)
    sys.path.insert(0, HERE)
    sys.path.insert(0, repo)      # the working tree, never an installed copy
    import warnings
    warnings.filterwarnings("ignore")


def load_check(pid):
    import importlib
    return importlib.import_module("checks.%s" % pid.lower())


def main(argv):
    _reexec()
    _setup_path()
    if len(argv) < 2:
        print(__doc__)
        return 2
    cmd = argv[1]
    if cmd == "check":
        pid = argv[2]
        tier = os.environ.get("VERIF_TIER", "quick")
        if "--tier" in argv:
            tier = argv[argv.index("--tier") + 1]
        seed = int(os.environ.get("VERIF_SEED", "0"))
        from sim import runner
        check = load_check(pid)
        import BPTK_Py  # noqa  (import once in the parent, forked workers inherit it)
        repo = os.environ.get("VERIF_REPO", "/repo")
        if not os.path.abspath(BPTK_Py.__file__).startswith(os.path.abspath(repo)):
            print("HARNESS-ERROR BPTK_Py imported from %s, not from %s" % (BPTK_Py.__file__, repo))
            return 2
        return runner.run_check(check, tier, seed)
    if cmd == "replay":
        import json
        from sim import runner
        with open(argv[2]) as f:
            doc = json.load(f)
        check = load_check(doc["property"])
        return runner.replay(check, argv[2])
    if cmd == "mutants":
        from tools import mutants
        return mutants.main(argv[2:])
    if cmd == "seeded":
        from tools import seeded
        return seeded.main(argv[2:])
    if cmd == "digests":
        import selftest
        return selftest.cmd_digests(argv[2], int(argv[3]))
    if cmd == "selftest":
        import selftest
        return selftest.main(argv[2:])
    print(__doc__)
    return 2


if __name__ == "__main__":
    sys.exit(main(sys.argv))
